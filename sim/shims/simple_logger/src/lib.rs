//! Stand-in for simple_logger: selects the simulated process's verbosity; records go to the
//! world's log sink through the real `log` facade.

use log::{LevelFilter, SetLoggerError};

pub struct SimpleLogger {
    level: LevelFilter,
}

impl Default for SimpleLogger {
    fn default() -> Self {
        Self::new()
    }
}

impl SimpleLogger {
    pub fn new() -> SimpleLogger {
        SimpleLogger { level: LevelFilter::Trace }
    }
    pub fn with_level(mut self, level: LevelFilter) -> SimpleLogger {
        self.level = level;
        self
    }
    pub fn with_utc_timestamps(self) -> SimpleLogger {
        self
    }
    pub fn init(self) -> Result<(), SetLoggerError> {
        // VERIF_LOG_LEVEL override: the embedding program selects the verbosity
        let lvl = dsim::try_with(|w| w.knobs.get("log_level").copied()).flatten();
        let level = match lvl {
            Some(0) => LevelFilter::Off,
            Some(1) => LevelFilter::Error,
            Some(2) => LevelFilter::Warn,
            Some(3) => LevelFilter::Info,
            Some(4) => LevelFilter::Debug,
            Some(5) => LevelFilter::Trace,
            _ => self.level,
        };
        dsim::logger::set_level(level);
        Ok(())
    }
}
