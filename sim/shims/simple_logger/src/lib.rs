//! Stand-in for simple_logger: selects the simulated process's verbosity; records go to the
//! world's log sink through the real `log` facade.

use log::{LevelFilter, SetLoggerError};

pub struct SimpleLogger {
    level: LevelFilter,
}

impl Default for SimpleLogger {
    fn default() -> Self {
        Self::new()
    }
}

impl SimpleLogger {
    pub fn new() -> SimpleLogger {
        SimpleLogger { level: LevelFilter::Trace }
    }
    pub fn with_level(mut self, level: LevelFilter) -> SimpleLogger {
        self.level = level;
        self
    }
    pub fn with_utc_timestamps(self) -> SimpleLogger {
        self
    }
    /// `RUST_LOG` of the simulated process, when it names a plain level, replaces the default level
    /// (per-module directives are not modelled: the stand-in has one level per process)
    pub fn env(mut self) -> SimpleLogger {
        let v = dsim::try_with(|w| {
            let t = w.current?;
            w.procs[w.tasks[t].proc].env.get("RUST_LOG").cloned()
        })
        .flatten();
        if let Some(l) = v.and_then(|s| s.trim().parse::<LevelFilter>().ok()) {
            self.level = l;
        }
        self
    }
    pub fn from_env() -> SimpleLogger {
        SimpleLogger::new().with_level(LevelFilter::Error).env()
    }
    /// one level per simulated process: a module level can only raise what is recorded, never hide
    /// records the default level lets through (more is scanned and judged, not less)
    pub fn with_module_level(mut self, _target: &str, level: LevelFilter) -> SimpleLogger {
        if level > self.level {
            self.level = level;
        }
        self
    }
    pub fn with_target_levels(mut self, target_levels: std::collections::HashMap<String, LevelFilter>) -> SimpleLogger {
        for l in target_levels.values() {
            if *l > self.level {
                self.level = *l;
            }
        }
        self
    }
    pub fn with_threads(self, _threads: bool) -> SimpleLogger {
        self
    }
    pub fn with_timestamps(self, _timestamps: bool) -> SimpleLogger {
        self
    }
    pub fn without_timestamps(self) -> SimpleLogger {
        self
    }
    pub fn with_local_timestamps(self) -> SimpleLogger {
        self
    }
    pub fn with_colors(self, _colors: bool) -> SimpleLogger {
        self
    }
    pub fn max_level(&self) -> LevelFilter {
        self.level
    }
    pub fn init(self) -> Result<(), SetLoggerError> {
        // VERIF_LOG_LEVEL override: the embedding program selects the verbosity
        let lvl = dsim::try_with(|w| w.knobs.get("log_level").copied()).flatten();
        let level = match lvl {
            Some(0) => LevelFilter::Off,
            Some(1) => LevelFilter::Error,
            Some(2) => LevelFilter::Warn,
            Some(3) => LevelFilter::Info,
            Some(4) => LevelFilter::Debug,
            Some(5) => LevelFilter::Trace,
            _ => self.level,
        };
        dsim::logger::set_level(level);
        Ok(())
    }
}

pub fn init() -> Result<(), SetLoggerError> {
    SimpleLogger::new().init()
}

pub fn init_utc() -> Result<(), SetLoggerError> {
    SimpleLogger::new().with_utc_timestamps().init()
}

pub fn init_with_env() -> Result<(), SetLoggerError> {
    SimpleLogger::new().env().init()
}

pub fn init_with_level(level: log::Level) -> Result<(), SetLoggerError> {
    SimpleLogger::new().with_level(level.to_level_filter()).init()
}

pub fn init_by_env() {
    let _ = SimpleLogger::from_env().init();
}
