//! Stand-in for ring: everything is the real ring 0.17 except `rand::SystemRandom`, whose bytes
//! come from the simulated world's entropy stream (and are logged there).

pub use ring_real::{aead, agreement, digest, error, hkdf, hmac, io, pbkdf2, rsa, signature};

pub mod rand {
    use ring_real::error::Unspecified;

    pub trait SecureRandom {
        fn fill(&self, dest: &mut [u8]) -> Result<(), Unspecified>;
    }

    /// `ring::rand::generate`: a value of a fixed-size byte array type filled from `rng`
    pub fn generate<T: RandomlyConstructable>(rng: &dyn SecureRandom) -> Result<Random<T>, Unspecified> {
        let mut v = T::zero();
        rng.fill(v.as_mut_bytes())?;
        Ok(Random(v))
    }

    pub struct Random<T: RandomlyConstructable>(T);

    impl<T: RandomlyConstructable> Random<T> {
        pub fn expose(self) -> T {
            self.0
        }
    }

    pub trait RandomlyConstructable: Sized {
        fn zero() -> Self;
        fn as_mut_bytes(&mut self) -> &mut [u8];
    }

    impl<const N: usize> RandomlyConstructable for [u8; N] {
        fn zero() -> Self {
            [0u8; N]
        }
        fn as_mut_bytes(&mut self) -> &mut [u8] {
            &mut self[..]
        }
    }

    #[derive(Clone, Debug, Default)]
    pub struct SystemRandom;

    impl SystemRandom {
        pub fn new() -> SystemRandom {
            SystemRandom
        }
    }

    impl SecureRandom for SystemRandom {
        fn fill(&self, dest: &mut [u8]) -> Result<(), Unspecified> {
            if dsim::is_installed() {
                dsim::entropy("ring::SystemRandom", dest);
                Ok(())
            } else {
                use ring_real::rand::SecureRandom as _;
                ring_real::rand::SystemRandom::new().fill(dest)
            }
        }
    }
}
