//! Stand-in for ring: everything is the real ring 0.17 except `rand::SystemRandom`, whose bytes
//! come from the simulated world's entropy stream (and are logged there).

pub use ring_real::{aead, agreement, digest, error, hkdf, hmac, io, pbkdf2, rsa, signature};

pub mod rand {
    use ring_real::error::Unspecified;

    pub trait SecureRandom {
        fn fill(&self, dest: &mut [u8]) -> Result<(), Unspecified>;
    }

    #[derive(Clone, Debug, Default)]
    pub struct SystemRandom;

    impl SystemRandom {
        pub fn new() -> SystemRandom {
            SystemRandom
        }
    }

    impl SecureRandom for SystemRandom {
        fn fill(&self, dest: &mut [u8]) -> Result<(), Unspecified> {
            if dsim::is_installed() {
                dsim::entropy("ring::SystemRandom", dest);
                Ok(())
            } else {
                use ring_real::rand::SecureRandom as _;
                ring_real::rand::SystemRandom::new().fill(dest)
            }
        }
    }
}
