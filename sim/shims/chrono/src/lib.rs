//! Stand-in for chrono (library side only): the real crate, except that `Utc::now()` reads the
//! simulated wall clock.

pub use chrono_real::*;

/// Shadows the glob-imported `chrono::Utc` for the one call the library makes: `Utc::now()`.
#[allow(non_camel_case_types)]
pub struct Utc;

impl Utc {
    pub fn now() -> chrono_real::DateTime<chrono_real::Utc> {
        let ns = dsim::wall_peek();
        let secs = (ns / 1_000_000_000) as i64;
        let nanos = (ns % 1_000_000_000) as u32;
        chrono_real::TimeZone::timestamp_opt(&chrono_real::Utc, secs, nanos).single().expect("simulated wall clock out of chrono's range")
    }
}
