//! Stand-in for chrono: the real crate, unchanged. `Utc::now()` / `Local::now()` read the
//! simulated wall clock because the C library's `clock_gettime` is interposed inside simulated
//! tasks (dsim/src/interpose.rs); an earlier version shadowed `Utc` with a unit struct, which
//! broke every use of `Utc` as a type (`DateTime<Utc>`, `Utc.timestamp_opt(..)`).

pub use chrono_real::*;
