//! Stand-in for net2's UdpBuilder (SO_REUSEADDR / SO_REUSEPORT + bind) on the dsim kernel.

use std::io;
use std::net::SocketAddr;

pub struct UdpBuilder {
    id: dsim::SockId,
}

impl UdpBuilder {
    pub fn new_v4() -> io::Result<UdpBuilder> {
        dsim::yield_point(dsim::Op::Small);
        let id = dsim::with(|w| {
            let p = w.cur_proc();
            w.udp_socket(p)
        });
        Ok(UdpBuilder { id })
    }

    pub fn new_v6() -> io::Result<UdpBuilder> {
        UdpBuilder::new_v4()
    }

    pub fn reuse_address(&self, _on: bool) -> io::Result<&UdpBuilder> {
        Ok(self)
    }

    pub fn ttl(&self, _ttl: u32) -> io::Result<&UdpBuilder> {
        Ok(self)
    }

    pub fn only_v6(&self, _on: bool) -> io::Result<&UdpBuilder> {
        Ok(self)
    }

    pub fn take_error(&self) -> io::Result<Option<io::Error>> {
        Ok(None)
    }

    pub fn bind<T: std::net::ToSocketAddrs>(&self, addr: T) -> io::Result<mio::net::RawUdp> {
        let addr = addr.to_socket_addrs()?.next().ok_or_else(|| io::Error::new(io::ErrorKind::InvalidInput, "no address"))?;
        dsim::yield_point(dsim::Op::Small);
        dsim::with(|w| w.udp_bind(self.id, addr))?;
        Ok(mio::net::RawUdp(self.id))
    }
}

/// SO_REUSEADDR / SO_REUSEPORT + bind + listen for TCP.
pub struct TcpBuilder {
    reuse_port: std::cell::Cell<bool>,
    /// SO_REUSEPORT as it stood when `bind` was called: setting the option afterwards does not
    /// let the socket share an address that is already in use
    reuse_port_at_bind: std::cell::Cell<bool>,
    addr: std::cell::Cell<Option<SocketAddr>>,
}

impl TcpBuilder {
    pub fn new_v4() -> io::Result<TcpBuilder> {
        Ok(TcpBuilder { reuse_port: std::cell::Cell::new(false), reuse_port_at_bind: std::cell::Cell::new(false), addr: std::cell::Cell::new(None) })
    }

    pub fn new_v6() -> io::Result<TcpBuilder> {
        TcpBuilder::new_v4()
    }

    pub fn reuse_address(&self, _on: bool) -> io::Result<&TcpBuilder> {
        Ok(self)
    }

    pub fn ttl(&self, _ttl: u32) -> io::Result<&TcpBuilder> {
        Ok(self)
    }

    pub fn only_v6(&self, _on: bool) -> io::Result<&TcpBuilder> {
        Ok(self)
    }

    pub fn take_error(&self) -> io::Result<Option<io::Error>> {
        Ok(None)
    }

    /// the address handed to `bind` (the port is known before `listen` in this model)
    pub fn local_addr(&self) -> io::Result<SocketAddr> {
        self.addr.get().ok_or_else(|| io::Error::new(io::ErrorKind::InvalidInput, "not bound"))
    }

    pub fn bind<A: std::net::ToSocketAddrs>(&self, addr: A) -> io::Result<&TcpBuilder> {
        let a = addr.to_socket_addrs()?.next().ok_or_else(|| io::Error::new(io::ErrorKind::InvalidInput, "no address"))?;
        self.addr.set(Some(a));
        self.reuse_port_at_bind.set(self.reuse_port.get());
        Ok(self)
    }

    /// The port becomes occupied at listen time in this model (bind and listen are adjacent in
    /// every caller the repository has).
    pub fn listen(&self, _backlog: i32) -> io::Result<mio::net::RawTcpListener> {
        dsim::yield_point(dsim::Op::Small);
        let a = self.addr.get().ok_or_else(|| io::Error::new(io::ErrorKind::InvalidInput, "listen before bind"))?;
        let id = dsim::with(|w| {
            let p = w.cur_proc();
            w.tcp_listen_opts(p, a, self.reuse_port_at_bind.get())
        })?;
        Ok(mio::net::RawTcpListener(id))
    }
}

pub mod unix {
    pub trait UnixTcpBuilderExt {
        fn reuse_port(&self, on: bool) -> std::io::Result<&Self>;
    }

    impl UnixTcpBuilderExt for super::TcpBuilder {
        fn reuse_port(&self, on: bool) -> std::io::Result<&Self> {
            self.reuse_port.set(on);
            Ok(self)
        }
    }

    use std::io;

    pub trait UnixUdpBuilderExt {
        fn reuse_port(&self, on: bool) -> io::Result<&Self>;
    }

    impl UnixUdpBuilderExt for super::UdpBuilder {
        fn reuse_port(&self, on: bool) -> io::Result<&Self> {
            dsim::with(|w| w.socks[self.id].reuse_port = on);
            Ok(self)
        }
    }
}

/// The socket-option extension trait of net2, for what `UdpBuilder::bind` hands out here. The
/// receive buffer size is the one option with an observable effect: it sets the capacity of the
/// simulated receive queue (about 2.3 kB of kernel memory per queued datagram of this size).
pub trait UdpSocketExt {
    fn set_recv_buffer_size(&self, size: usize) -> io::Result<()>;
    fn recv_buffer_size(&self) -> io::Result<usize>;
    fn set_send_buffer_size(&self, size: usize) -> io::Result<()>;
    fn send_buffer_size(&self) -> io::Result<usize>;
    fn set_nonblocking(&self, on: bool) -> io::Result<()>;
    fn set_broadcast(&self, on: bool) -> io::Result<()>;
    fn set_ttl(&self, ttl: u32) -> io::Result<()>;
}

impl UdpSocketExt for mio::net::RawUdp {
    fn set_recv_buffer_size(&self, size: usize) -> io::Result<()> {
        dsim::with(|w| w.socks[self.0].cap = (size / 2304).max(1));
        Ok(())
    }
    fn recv_buffer_size(&self) -> io::Result<usize> {
        Ok(dsim::with(|w| w.socks[self.0].cap) * 2304)
    }
    fn set_send_buffer_size(&self, _size: usize) -> io::Result<()> {
        Ok(())
    }
    fn send_buffer_size(&self) -> io::Result<usize> {
        Ok(212_992)
    }
    fn set_nonblocking(&self, _on: bool) -> io::Result<()> {
        Ok(())
    }
    fn set_broadcast(&self, _on: bool) -> io::Result<()> {
        Ok(())
    }
    fn set_ttl(&self, _ttl: u32) -> io::Result<()> {
        Ok(())
    }
}
