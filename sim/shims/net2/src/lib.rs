//! Stand-in for net2's UdpBuilder (SO_REUSEADDR / SO_REUSEPORT + bind) on the dsim kernel.

use std::io;
use std::net::SocketAddr;

pub struct UdpBuilder {
    id: dsim::SockId,
}

impl UdpBuilder {
    pub fn new_v4() -> io::Result<UdpBuilder> {
        dsim::yield_point(dsim::Op::Small);
        let id = dsim::with(|w| {
            let p = w.cur_proc();
            w.udp_socket(p)
        });
        Ok(UdpBuilder { id })
    }

    pub fn reuse_address(&self, _on: bool) -> io::Result<&UdpBuilder> {
        Ok(self)
    }

    pub fn bind(&self, addr: SocketAddr) -> io::Result<mio::net::RawUdp> {
        dsim::yield_point(dsim::Op::Small);
        dsim::with(|w| w.udp_bind(self.id, addr))?;
        Ok(mio::net::RawUdp(self.id))
    }
}

/// SO_REUSEADDR / SO_REUSEPORT + bind + listen for TCP.
pub struct TcpBuilder {
    reuse_port: std::cell::Cell<bool>,
    addr: std::cell::Cell<Option<SocketAddr>>,
}

impl TcpBuilder {
    pub fn new_v4() -> io::Result<TcpBuilder> {
        Ok(TcpBuilder { reuse_port: std::cell::Cell::new(false), addr: std::cell::Cell::new(None) })
    }

    pub fn new_v6() -> io::Result<TcpBuilder> {
        TcpBuilder::new_v4()
    }

    pub fn reuse_address(&self, _on: bool) -> io::Result<&TcpBuilder> {
        Ok(self)
    }

    pub fn bind<A: std::net::ToSocketAddrs>(&self, addr: A) -> io::Result<&TcpBuilder> {
        let a = addr.to_socket_addrs()?.next().ok_or_else(|| io::Error::new(io::ErrorKind::InvalidInput, "no address"))?;
        self.addr.set(Some(a));
        Ok(self)
    }

    /// The port becomes occupied at listen time in this model (bind and listen are adjacent in
    /// every caller the repository has).
    pub fn listen(&self, _backlog: i32) -> io::Result<mio::net::RawTcpListener> {
        dsim::yield_point(dsim::Op::Small);
        let a = self.addr.get().ok_or_else(|| io::Error::new(io::ErrorKind::InvalidInput, "listen before bind"))?;
        let id = dsim::with(|w| {
            let p = w.cur_proc();
            w.tcp_listen_opts(p, a, self.reuse_port.get())
        })?;
        Ok(mio::net::RawTcpListener(id))
    }
}

pub mod unix {
    pub trait UnixTcpBuilderExt {
        fn reuse_port(&self, on: bool) -> std::io::Result<&Self>;
    }

    impl UnixTcpBuilderExt for super::TcpBuilder {
        fn reuse_port(&self, on: bool) -> std::io::Result<&Self> {
            self.reuse_port.set(on);
            Ok(self)
        }
    }

    use std::io;

    pub trait UnixUdpBuilderExt {
        fn reuse_port(&self, on: bool) -> io::Result<&Self>;
    }

    impl UnixUdpBuilderExt for super::UdpBuilder {
        fn reuse_port(&self, on: bool) -> io::Result<&Self> {
            dsim::with(|w| w.socks[self.id].reuse_port = on);
            Ok(self)
        }
    }
}
