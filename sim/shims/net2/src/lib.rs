//! Stand-in for net2's UdpBuilder (SO_REUSEADDR / SO_REUSEPORT + bind) on the dsim kernel.

use std::io;
use std::net::SocketAddr;

pub struct UdpBuilder {
    id: dsim::SockId,
}

impl UdpBuilder {
    pub fn new_v4() -> io::Result<UdpBuilder> {
        dsim::yield_point(dsim::Op::Small);
        let id = dsim::with(|w| {
            let p = w.cur_proc();
            w.udp_socket(p)
        });
        Ok(UdpBuilder { id })
    }

    pub fn reuse_address(&self, _on: bool) -> io::Result<&UdpBuilder> {
        Ok(self)
    }

    pub fn bind(&self, addr: SocketAddr) -> io::Result<mio::net::RawUdp> {
        dsim::yield_point(dsim::Op::Small);
        dsim::with(|w| w.udp_bind(self.id, addr))?;
        Ok(mio::net::RawUdp(self.id))
    }
}

pub mod unix {
    use std::io;

    pub trait UnixUdpBuilderExt {
        fn reuse_port(&self, on: bool) -> io::Result<&Self>;
    }

    impl UnixUdpBuilderExt for super::UdpBuilder {
        fn reuse_port(&self, on: bool) -> io::Result<&Self> {
            dsim::with(|w| w.socks[self.id].reuse_port = on);
            Ok(self)
        }
    }
}
