//! Stand-in for ctrlc: registers the handler with the simulated process; a simulated
//! SIGINT/SIGTERM runs it in a task of that process created for the occasion (the real crate
//! runs it on a thread of its own, concurrently with everything else).

use std::rc::Rc;

#[derive(Debug)]
pub enum Error {
    NoSuchSignal(i32),
    MultipleHandlers,
    System(std::io::Error),
}

impl std::error::Error for Error {}

impl std::fmt::Display for Error {
    fn fmt(&self, f: &mut std::fmt::Formatter<'_>) -> std::fmt::Result {
        write!(f, "Ctrl-C error: {:?}", self)
    }
}

pub fn set_handler<F>(user_handler: F) -> Result<(), Error>
where
    F: FnMut() + 'static + Send,
{
    dsim::yield_point(dsim::Op::Small);
    let cell = std::cell::RefCell::new(user_handler);
    let h: Rc<dyn Fn()> = Rc::new(move || (cell.borrow_mut())());
    dsim::with(|w| {
        let p = w.cur_proc();
        if w.procs[p].handler.is_some() {
            return Err(Error::MultipleHandlers);
        }
        w.procs[p].handler = Some(h);
        w.record(dsim::Ev::CtrlcRegistered { proc: p });
        Ok(())
    })
}

/// `try_set_handler` (ctrlc >= 3.3): the same, the handler simply is not installed a second time
pub fn try_set_handler<F>(user_handler: F) -> Result<(), Error>
where
    F: FnMut() + 'static + Send,
{
    set_handler(user_handler)
}
