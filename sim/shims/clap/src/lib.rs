//! Stand-in for clap 2: the real crate, except that `App::get_matches` parses the *simulated*
//! process's argv and a usage error ends the simulated process (not the OS process).

pub use clap_real::*;

pub struct App<'a, 'b>(clap_real::App<'a, 'b>);

impl<'a, 'b> App<'a, 'b> {
    pub fn new<S: Into<String>>(n: S) -> Self {
        App(clap_real::App::new(n))
    }
    pub fn version<S: Into<&'b str>>(self, ver: S) -> Self {
        App(self.0.version(ver))
    }
    pub fn about<S: Into<&'b str>>(self, about: S) -> Self {
        App(self.0.about(about))
    }
    pub fn arg<A: Into<clap_real::Arg<'a, 'b>>>(self, a: A) -> Self {
        App(self.0.arg(a))
    }
    pub fn get_matches(self) -> clap_real::ArgMatches<'a> {
        let argv: Vec<String> = dsim::with(|w| {
            let p = w.cur_proc();
            w.procs[p].argv.clone()
        });
        match self.0.get_matches_from_safe(argv) {
            Ok(m) => m,
            Err(e) => {
                dsim::stderr(&format!("{}\n", e.message));
                let code = if e.use_stderr() { 1 } else { 0 };
                dsim::proc_exit(code)
            }
        }
    }
}
