//! Stand-in for clap 2: the real crate, except that `App::get_matches` parses the *simulated*
//! process's argv and a usage error ends the simulated process (not the OS process).

pub use clap_real::*;

pub struct App<'a, 'b>(clap_real::App<'a, 'b>);

impl<'a, 'b> App<'a, 'b> {
    pub fn new<S: Into<String>>(n: S) -> Self {
        App(clap_real::App::new(n))
    }
    pub fn version<S: Into<&'b str>>(self, ver: S) -> Self {
        App(self.0.version(ver))
    }
    pub fn about<S: Into<&'b str>>(self, about: S) -> Self {
        App(self.0.about(about))
    }
    pub fn arg<A: Into<clap_real::Arg<'a, 'b>>>(self, a: A) -> Self {
        App(self.0.arg(a))
    }
    pub fn args(self, args: &[clap_real::Arg<'a, 'b>]) -> Self {
        App(self.0.args(args))
    }
    pub fn author<S: Into<&'b str>>(self, author: S) -> Self {
        App(self.0.author(author))
    }
    pub fn long_about<S: Into<&'b str>>(self, about: S) -> Self {
        App(self.0.long_about(about))
    }
    pub fn long_version<S: Into<&'b str>>(self, ver: S) -> Self {
        App(self.0.long_version(ver))
    }
    pub fn bin_name<S: Into<String>>(self, name: S) -> Self {
        App(self.0.bin_name(name))
    }
    pub fn after_help<S: Into<&'b str>>(self, help: S) -> Self {
        App(self.0.after_help(help))
    }
    pub fn before_help<S: Into<&'b str>>(self, help: S) -> Self {
        App(self.0.before_help(help))
    }
    pub fn usage<S: Into<&'b str>>(self, usage: S) -> Self {
        App(self.0.usage(usage))
    }
    pub fn help<S: Into<&'b str>>(self, help: S) -> Self {
        App(self.0.help(help))
    }
    pub fn setting(self, setting: clap_real::AppSettings) -> Self {
        App(self.0.setting(setting))
    }
    pub fn settings(self, settings: &[clap_real::AppSettings]) -> Self {
        App(self.0.settings(settings))
    }
    pub fn global_setting(self, setting: clap_real::AppSettings) -> Self {
        App(self.0.global_setting(setting))
    }
    pub fn unset_setting(self, setting: clap_real::AppSettings) -> Self {
        App(self.0.unset_setting(setting))
    }
    pub fn set_term_width(self, width: usize) -> Self {
        App(self.0.set_term_width(width))
    }
    pub fn arg_from_usage(self, usage: &'a str) -> Self {
        App(self.0.arg_from_usage(usage))
    }
    pub fn args_from_usage(self, usage: &'a str) -> Self {
        App(self.0.args_from_usage(usage))
    }
    pub fn group(self, group: clap_real::ArgGroup<'a>) -> Self {
        App(self.0.group(group))
    }
    pub fn get_matches_safe(self) -> clap_real::Result<clap_real::ArgMatches<'a>> {
        let argv: Vec<String> = dsim::with(|w| {
            let p = w.cur_proc();
            w.procs[p].argv.clone()
        });
        self.0.get_matches_from_safe(argv)
    }
    pub fn get_matches(self) -> clap_real::ArgMatches<'a> {
        let argv: Vec<String> = dsim::with(|w| {
            let p = w.cur_proc();
            w.procs[p].argv.clone()
        });
        match self.0.get_matches_from_safe(argv) {
            Ok(m) => m,
            Err(e) => {
                dsim::stderr(&format!("{}\n", e.message));
                let code = if e.use_stderr() { 1 } else { 0 };
                dsim::proc_exit(code)
            }
        }
    }
}
