//! Stand-in for ahash::AHashMap with fixed hashing keys (identical iteration order in every
//! process) and bounded pre-allocation (the repository asks for 5,000,000 entries up front).

use std::collections::hash_map::DefaultHasher;
use std::collections::HashMap;
use std::hash::BuildHasherDefault;
use std::ops::{Deref, DerefMut};

pub type FixedState = BuildHasherDefault<DefaultHasher>;

#[derive(Debug, Clone)]
pub struct AHashMap<K, V>(HashMap<K, V, FixedState>);

impl<K, V> AHashMap<K, V> {
    pub fn new() -> Self {
        AHashMap(HashMap::with_hasher(FixedState::default()))
    }
    pub fn with_capacity(capacity: usize) -> Self {
        AHashMap(HashMap::with_capacity_and_hasher(capacity.min(1024), FixedState::default()))
    }
}

impl<K, V> Default for AHashMap<K, V> {
    fn default() -> Self {
        Self::new()
    }
}

impl<K, V> Deref for AHashMap<K, V> {
    type Target = HashMap<K, V, FixedState>;
    fn deref(&self) -> &Self::Target {
        &self.0
    }
}

impl<K, V> DerefMut for AHashMap<K, V> {
    fn deref_mut(&mut self) -> &mut Self::Target {
        &mut self.0
    }
}

/// `ahash::RandomState` with fixed keys
#[derive(Clone, Debug, Default)]
pub struct RandomState(FixedState);

impl RandomState {
    pub fn new() -> RandomState {
        RandomState(FixedState::default())
    }
    pub fn with_seed(_seed: usize) -> RandomState {
        RandomState::new()
    }
    pub fn with_seeds(_a: u64, _b: u64, _c: u64, _d: u64) -> RandomState {
        RandomState::new()
    }
}

impl std::hash::BuildHasher for RandomState {
    type Hasher = DefaultHasher;
    fn build_hasher(&self) -> DefaultHasher {
        self.0.build_hasher()
    }
}

pub type AHasher = DefaultHasher;

#[derive(Debug, Clone)]
pub struct AHashSet<K>(std::collections::HashSet<K, FixedState>);

impl<K> AHashSet<K> {
    pub fn new() -> Self {
        AHashSet(std::collections::HashSet::with_hasher(FixedState::default()))
    }
    pub fn with_capacity(capacity: usize) -> Self {
        AHashSet(std::collections::HashSet::with_capacity_and_hasher(capacity.min(1024), FixedState::default()))
    }
}

impl<K> Default for AHashSet<K> {
    fn default() -> Self {
        Self::new()
    }
}

impl<K> Deref for AHashSet<K> {
    type Target = std::collections::HashSet<K, FixedState>;
    fn deref(&self) -> &Self::Target {
        &self.0
    }
}

impl<K> DerefMut for AHashSet<K> {
    fn deref_mut(&mut self) -> &mut Self::Target {
        &mut self.0
    }
}

impl<K: std::hash::Hash + Eq, V> FromIterator<(K, V)> for AHashMap<K, V> {
    fn from_iter<I: IntoIterator<Item = (K, V)>>(it: I) -> Self {
        let mut m = AHashMap::new();
        m.extend(it);
        m
    }
}

impl<K, V> IntoIterator for AHashMap<K, V> {
    type Item = (K, V);
    type IntoIter = std::collections::hash_map::IntoIter<K, V>;
    fn into_iter(self) -> Self::IntoIter {
        self.0.into_iter()
    }
}

impl<'a, K, V> IntoIterator for &'a AHashMap<K, V> {
    type Item = (&'a K, &'a V);
    type IntoIter = std::collections::hash_map::Iter<'a, K, V>;
    fn into_iter(self) -> Self::IntoIter {
        self.0.iter()
    }
}
