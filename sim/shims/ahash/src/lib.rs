//! Stand-in for ahash::AHashMap with fixed hashing keys (identical iteration order in every
//! process) and bounded pre-allocation (the repository asks for 5,000,000 entries up front).

use std::collections::hash_map::DefaultHasher;
use std::collections::HashMap;
use std::hash::BuildHasherDefault;
use std::ops::{Deref, DerefMut};

pub type FixedState = BuildHasherDefault<DefaultHasher>;

#[derive(Debug, Clone)]
pub struct AHashMap<K, V>(HashMap<K, V, FixedState>);

impl<K, V> AHashMap<K, V> {
    pub fn new() -> Self {
        AHashMap(HashMap::with_hasher(FixedState::default()))
    }
    pub fn with_capacity(capacity: usize) -> Self {
        AHashMap(HashMap::with_capacity_and_hasher(capacity.min(1024), FixedState::default()))
    }
}

impl<K, V> Default for AHashMap<K, V> {
    fn default() -> Self {
        Self::new()
    }
}

impl<K, V> Deref for AHashMap<K, V> {
    type Target = HashMap<K, V, FixedState>;
    fn deref(&self) -> &Self::Target {
        &self.0
    }
}

impl<K, V> DerefMut for AHashMap<K, V> {
    fn deref_mut(&mut self) -> &mut Self::Target {
        &mut self.0
    }
}
