//! Stand-in for mio-extras 2.0.6 `timer::Timer`, backed by the dsim discrete-event clock with the
//! real wheel's 100 ms tick rounding (see dsim::World::timer_set).

pub mod timer {
    use std::marker::PhantomData;
    use std::time::Duration;

    pub struct Timer<T> {
        id: dsim::TimerId,
        _t: PhantomData<T>,
    }

    pub struct Timeout(());

    impl<T> Default for Timer<T> {
        fn default() -> Timer<T> {
            Timer { id: dsim::with(|w| w.timer_new()), _t: PhantomData }
        }
    }

    impl<T> Timer<T> {
        pub fn set_timeout(&mut self, delay_from_now: Duration, _state: T) -> Timeout {
            dsim::yield_point(dsim::Op::Small);
            dsim::with(|w| w.timer_set(self.id, delay_from_now));
            Timeout(())
        }
    }

    impl<T> mio::Evented for Timer<T> {
        fn source(&self) -> dsim::Source {
            dsim::Source::Timer(self.id)
        }
    }
}
