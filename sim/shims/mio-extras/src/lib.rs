//! Stand-in for mio-extras 2.0.6 `timer::Timer`, backed by the dsim discrete-event clock with the
//! real wheel's 100 ms tick rounding (see dsim::World::timer_set).

pub mod timer {
    use std::marker::PhantomData;
    use std::time::Duration;

    pub struct Timer<T> {
        id: dsim::TimerId,
        _t: PhantomData<T>,
    }

    #[derive(Clone, Debug)]
    pub struct Timeout(());

    /// `Builder`: tick duration, slots and capacity are accepted; the stand-in keeps the default
    /// wheel's 100 ms tick (the only one measured against the real crate)
    #[derive(Default)]
    pub struct Builder;

    impl Builder {
        pub fn tick_duration(self, _d: Duration) -> Builder {
            self
        }
        pub fn num_slots(self, _n: usize) -> Builder {
            self
        }
        pub fn capacity(self, _n: usize) -> Builder {
            self
        }
        pub fn build<T>(self) -> Timer<T> {
            Timer::default()
        }
    }

    impl<T> Default for Timer<T> {
        fn default() -> Timer<T> {
            Timer { id: dsim::with(|w| w.timer_new()), _t: PhantomData }
        }
    }

    impl<T> Timer<T> {
        pub fn set_timeout(&mut self, delay_from_now: Duration, _state: T) -> Timeout {
            dsim::yield_point(dsim::Op::Small);
            dsim::with(|w| w.timer_set(self.id, delay_from_now));
            Timeout(())
        }

        /// the stand-in does not keep the state handed to `set_timeout`: callers that poll the
        /// timer for it get `None` (the server never polls its timer)
        pub fn poll(&mut self) -> Option<T> {
            None
        }

        pub fn cancel_timeout(&mut self, _timeout: &Timeout) -> Option<T> {
            dsim::with(|w| w.timer_cancel(self.id));
            None
        }
    }

    impl<T> mio::Evented for Timer<T> {
        fn source(&self) -> dsim::Source {
            dsim::Source::Timer(self.id)
        }
    }
}
