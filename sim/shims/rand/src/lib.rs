//! Stand-in for rand 0.6: real distributions / sequences / generators, but every source of OS
//! entropy (`thread_rng`, `FromEntropy::from_entropy`) draws from the simulated world.

pub use rand_real::{distributions, seq, AsByteSliceMut, CryptoRng, Error, ErrorKind, Rng, RngCore, SeedableRng};

/// `rand::rngs` with every OS-entropy generator replaced by the simulated source
pub mod rngs {
    pub use super::ThreadRng;
    pub use rand_real::rngs::{adapter, mock, SmallRng, StdRng};
    pub use super::{EntropyRng, OsRng};
}

/// `rand::prelude` with the simulated `thread_rng` / `random` / `FromEntropy`
pub mod prelude {
    pub use super::rngs::{SmallRng, StdRng, ThreadRng};
    pub use super::{random, thread_rng, FromEntropy};
    pub use rand_real::distributions::Distribution;
    pub use rand_real::seq::{IteratorRandom, SliceRandom};
    pub use rand_real::{CryptoRng, Rng, RngCore, SeedableRng};
}

pub trait FromEntropy: SeedableRng {
    fn from_entropy() -> Self;
}

impl<R: SeedableRng> FromEntropy for R {
    fn from_entropy() -> R {
        let mut seed = R::Seed::default();
        dsim::entropy("rand::from_entropy", seed.as_mut());
        R::from_seed(seed)
    }
}

#[derive(Clone, Debug, Default)]
pub struct ThreadRng;

/// OS entropy = the simulated world's entropy stream (`OsRng::new()` is fallible in rand 0.6)
#[derive(Clone, Debug, Default)]
pub struct OsRng;

impl OsRng {
    pub fn new() -> Result<OsRng, Error> {
        Ok(OsRng)
    }
}

#[derive(Clone, Debug, Default)]
pub struct EntropyRng;

impl EntropyRng {
    pub fn new() -> EntropyRng {
        EntropyRng
    }
}

macro_rules! sim_rng {
    ($t:ty, $who:expr) => {
        impl RngCore for $t {
            fn next_u32(&mut self) -> u32 {
                let mut b = [0u8; 4];
                dsim::entropy($who, &mut b);
                u32::from_le_bytes(b)
            }
            fn next_u64(&mut self) -> u64 {
                let mut b = [0u8; 8];
                dsim::entropy($who, &mut b);
                u64::from_le_bytes(b)
            }
            fn fill_bytes(&mut self, dest: &mut [u8]) {
                dsim::entropy($who, dest);
            }
            fn try_fill_bytes(&mut self, dest: &mut [u8]) -> Result<(), Error> {
                self.fill_bytes(dest);
                Ok(())
            }
        }
        impl CryptoRng for $t {}
    };
}

sim_rng!(OsRng, "rand::OsRng");
sim_rng!(EntropyRng, "rand::EntropyRng");

pub fn thread_rng() -> ThreadRng {
    ThreadRng
}

impl RngCore for ThreadRng {
    fn next_u32(&mut self) -> u32 {
        let mut b = [0u8; 4];
        dsim::entropy("rand::thread_rng", &mut b);
        u32::from_le_bytes(b)
    }
    fn next_u64(&mut self) -> u64 {
        let mut b = [0u8; 8];
        dsim::entropy("rand::thread_rng", &mut b);
        u64::from_le_bytes(b)
    }
    fn fill_bytes(&mut self, dest: &mut [u8]) {
        dsim::entropy("rand::thread_rng", dest);
    }
    fn try_fill_bytes(&mut self, dest: &mut [u8]) -> Result<(), Error> {
        self.fill_bytes(dest);
        Ok(())
    }
}

/// `rand::random()`: one value from the simulated thread-local generator
pub fn random<T>() -> T
where
    distributions::Standard: distributions::Distribution<T>,
{
    use rand_real::Rng as _;
    thread_rng().gen()
}

impl CryptoRng for ThreadRng {}
