//! Stand-in for mio 0.6 backed by the dsim kernel. Only the surface the repository uses.

use std::io;
use std::time::Duration;

pub trait Evented {
    fn source(&self) -> dsim::Source;
}

#[derive(Copy, Clone, Debug, PartialEq, Eq, PartialOrd, Ord, Hash)]
pub struct Token(pub usize);

#[derive(Copy, Clone, Debug, PartialEq, Eq)]
pub struct Ready(u8);

impl Ready {
    pub fn empty() -> Ready {
        Ready(0)
    }
    pub fn readable() -> Ready {
        Ready(1)
    }
    pub fn writable() -> Ready {
        Ready(2)
    }
    pub fn all() -> Ready {
        Ready(3)
    }
    pub fn is_empty(&self) -> bool {
        self.0 == 0
    }
    pub fn is_readable(&self) -> bool {
        self.0 & 1 != 0
    }
    pub fn is_writable(&self) -> bool {
        self.0 & 2 != 0
    }
    pub fn contains(&self, other: Ready) -> bool {
        self.0 & other.0 == other.0
    }
    pub fn insert(&mut self, other: Ready) {
        self.0 |= other.0
    }
    pub fn remove(&mut self, other: Ready) {
        self.0 &= !other.0
    }
}

impl std::ops::BitOr for Ready {
    type Output = Ready;
    fn bitor(self, o: Ready) -> Ready {
        Ready(self.0 | o.0)
    }
}

impl std::ops::BitAnd for Ready {
    type Output = Ready;
    fn bitand(self, o: Ready) -> Ready {
        Ready(self.0 & o.0)
    }
}

impl From<usize> for Token {
    fn from(v: usize) -> Token {
        Token(v)
    }
}

impl From<Token> for usize {
    fn from(t: Token) -> usize {
        t.0
    }
}

#[derive(Copy, Clone, Debug, PartialEq, Eq)]
pub struct PollOpt(u8);

impl PollOpt {
    pub fn empty() -> PollOpt {
        PollOpt(0)
    }
    pub fn edge() -> PollOpt {
        PollOpt(1)
    }
    pub fn level() -> PollOpt {
        PollOpt(2)
    }
    pub fn oneshot() -> PollOpt {
        PollOpt(4)
    }
    pub fn is_edge(&self) -> bool {
        self.0 & 1 != 0
    }
    pub fn is_level(&self) -> bool {
        self.0 & 2 != 0
    }
    pub fn is_oneshot(&self) -> bool {
        self.0 & 4 != 0
    }
}

impl std::ops::BitOr for PollOpt {
    type Output = PollOpt;
    fn bitor(self, o: PollOpt) -> PollOpt {
        PollOpt(self.0 | o.0)
    }
}

#[derive(Copy, Clone, Debug)]
pub struct Event {
    token: Token,
}

impl Event {
    pub fn token(&self) -> Token {
        self.token
    }
    pub fn readiness(&self) -> Ready {
        Ready::readable()
    }
}

pub struct Events {
    cap: usize,
    inner: Vec<Event>,
}

impl Events {
    pub fn with_capacity(cap: usize) -> Events {
        Events { cap, inner: Vec::new() }
    }
    pub fn iter(&self) -> EventsIter<'_> {
        EventsIter { ev: self, pos: 0 }
    }
    pub fn len(&self) -> usize {
        self.inner.len()
    }
    pub fn is_empty(&self) -> bool {
        self.inner.is_empty()
    }
    pub fn capacity(&self) -> usize {
        self.cap
    }
    pub fn clear(&mut self) {
        self.inner.clear()
    }
    pub fn get(&self, idx: usize) -> Option<Event> {
        self.inner.get(idx).copied()
    }
}

pub struct EventsIter<'a> {
    ev: &'a Events,
    pos: usize,
}

impl<'a> Iterator for EventsIter<'a> {
    type Item = Event;
    fn next(&mut self) -> Option<Event> {
        let r = self.ev.inner.get(self.pos).copied();
        self.pos += 1;
        r
    }
}

impl<'a> IntoIterator for &'a Events {
    type Item = Event;
    type IntoIter = EventsIter<'a>;
    fn into_iter(self) -> EventsIter<'a> {
        self.iter()
    }
}

pub struct Poll {
    id: dsim::PollId,
}

impl Poll {
    pub fn new() -> io::Result<Poll> {
        Ok(Poll { id: dsim::with(|w| w.poll_new()) })
    }

    pub fn register<E: ?Sized + Evented>(&self, handle: &E, token: Token, interest: Ready, opts: PollOpt) -> io::Result<()> {
        dsim::yield_point(dsim::Op::Small);
        // (a registration without read interest never reports anything here: the stand-in has
        // no notion of writability, every simulated send completes at once)
        if interest.is_readable() {
            dsim::with(|w| w.poll_register_opts(self.id, handle.source(), token.0, opts.is_level() && !opts.is_edge(), opts.is_oneshot()));
        }
        Ok(())
    }

    pub fn reregister<E: ?Sized + Evented>(&self, handle: &E, token: Token, interest: Ready, opts: PollOpt) -> io::Result<()> {
        dsim::yield_point(dsim::Op::Small);
        if interest.is_readable() {
            dsim::with(|w| w.poll_reregister(self.id, handle.source(), token.0, opts.is_level() && !opts.is_edge(), opts.is_oneshot()));
        } else {
            dsim::with(|w| w.poll_deregister(self.id, handle.source()));
        }
        Ok(())
    }

    pub fn deregister<E: ?Sized + Evented>(&self, handle: &E) -> io::Result<()> {
        dsim::yield_point(dsim::Op::Small);
        dsim::with(|w| w.poll_deregister(self.id, handle.source()));
        Ok(())
    }

    pub fn poll_interruptible(&self, events: &mut Events, timeout: Option<Duration>) -> io::Result<usize> {
        let toks = dsim::poll_wait_opts(self.id, events.cap, timeout, true)?;
        events.inner.clear();
        events.inner.extend(toks.iter().map(|&t| Event { token: Token(t) }));
        Ok(events.inner.len())
    }

    pub fn poll(&self, events: &mut Events, timeout: Option<Duration>) -> io::Result<usize> {
        let toks = dsim::poll_wait(self.id, events.cap, timeout)?;
        events.inner.clear();
        events.inner.extend(toks.iter().map(|&t| Event { token: Token(t) }));
        Ok(events.inner.len())
    }
}

pub mod net {
    use super::Evented;
    use std::io;
    use std::net::{Shutdown, SocketAddr};

    /// What `net2::UdpBuilder::bind` hands over to `UdpSocket::from_socket`.
    pub struct RawUdp(pub dsim::SockId);

    /// the std-socket methods callers may use between `bind` and `from_socket`
    impl RawUdp {
        pub fn set_nonblocking(&self, _on: bool) -> io::Result<()> {
            Ok(())
        }
        pub fn local_addr(&self) -> io::Result<SocketAddr> {
            dsim::with(|w| w.socks[self.0].addr).ok_or_else(|| io::Error::new(io::ErrorKind::Other, "unbound"))
        }
        pub fn set_ttl(&self, _ttl: u32) -> io::Result<()> {
            Ok(())
        }
        pub fn set_broadcast(&self, _on: bool) -> io::Result<()> {
            Ok(())
        }
        pub fn take_error(&self) -> io::Result<Option<io::Error>> {
            Ok(None)
        }
    }

    pub struct UdpSocket {
        id: dsim::SockId,
    }

    impl UdpSocket {
        pub fn bind(addr: &SocketAddr) -> io::Result<UdpSocket> {
            dsim::yield_point(dsim::Op::Small);
            let id = dsim::with(|w| {
                let p = w.cur_proc();
                w.udp_socket(p)
            });
            dsim::with(|w| w.udp_bind(id, *addr))?;
            Ok(UdpSocket { id })
        }

        pub fn from_socket(raw: RawUdp) -> io::Result<UdpSocket> {
            Ok(UdpSocket { id: raw.0 })
        }

        pub fn local_addr(&self) -> io::Result<SocketAddr> {
            dsim::with(|w| w.socks[self.id].addr).ok_or_else(|| io::Error::new(io::ErrorKind::Other, "unbound"))
        }

        pub fn recv_from(&self, buf: &mut [u8]) -> io::Result<(usize, SocketAddr)> {
            dsim::udp_recv_from(self.id, buf)
        }

        pub fn send_to(&self, buf: &[u8], target: &SocketAddr) -> io::Result<usize> {
            dsim::udp_send_to(self.id, buf, *target)
        }

        pub fn sim_id(&self) -> dsim::SockId {
            self.id
        }

        // socket options: accepted and remembered as far as anything could observe them
        pub fn set_ttl(&self, _ttl: u32) -> io::Result<()> {
            Ok(())
        }
        pub fn ttl(&self) -> io::Result<u32> {
            Ok(64)
        }
        pub fn set_broadcast(&self, _on: bool) -> io::Result<()> {
            Ok(())
        }
        pub fn broadcast(&self) -> io::Result<bool> {
            Ok(false)
        }
        pub fn only_v6(&self) -> io::Result<bool> {
            Ok(false)
        }
        pub fn take_error(&self) -> io::Result<Option<io::Error>> {
            Ok(None)
        }
    }

    impl Drop for UdpSocket {
        fn drop(&mut self) {
            dsim::try_with(|w| {
                if self.id < w.socks.len() {
                    w.udp_close(self.id)
                }
            });
        }
    }

    impl Evented for UdpSocket {
        fn source(&self) -> dsim::Source {
            dsim::Source::Udp(self.id)
        }
    }

    pub struct TcpListener {
        id: dsim::ListenId,
    }

    /// What `net2::TcpBuilder::listen` hands over to `TcpListener::from_std`.
    pub struct RawTcpListener(pub dsim::ListenId);

    impl RawTcpListener {
        pub fn set_nonblocking(&self, _on: bool) -> io::Result<()> {
            Ok(())
        }
        pub fn local_addr(&self) -> io::Result<SocketAddr> {
            Ok(dsim::with(|w| w.listeners[self.0].addr))
        }
        pub fn set_ttl(&self, _ttl: u32) -> io::Result<()> {
            Ok(())
        }
    }

    impl TcpListener {
        pub fn from_std(raw: RawTcpListener) -> io::Result<TcpListener> {
            Ok(TcpListener { id: raw.0 })
        }

        /// mio 0.6.23 `TcpListener::bind` sets SO_REUSEADDR only (net/tcp.rs) — a second listener on
        /// the same address fails with EADDRINUSE, which is what the kernel model does.
        pub fn bind(addr: &SocketAddr) -> io::Result<TcpListener> {
            dsim::yield_point(dsim::Op::Small);
            let id = dsim::with(|w| {
                let p = w.cur_proc();
                w.tcp_listen(p, *addr)
            })?;
            Ok(TcpListener { id })
        }

        pub fn accept(&self) -> io::Result<(TcpStream, SocketAddr)> {
            dsim::yield_point(dsim::Op::Small);
            let (c, a) = dsim::with(|w| w.tcp_accept(self.id))?;
            Ok((TcpStream { id: c }, a))
        }

        /// `accept_std`: the accepted connection before it is wrapped (`TcpStream::from_stream`)
        pub fn accept_std(&self) -> io::Result<(RawTcpStream, SocketAddr)> {
            dsim::yield_point(dsim::Op::Small);
            let (c, a) = dsim::with(|w| w.tcp_accept(self.id))?;
            Ok((RawTcpStream(c), a))
        }

        pub fn local_addr(&self) -> io::Result<SocketAddr> {
            Ok(dsim::with(|w| w.listeners[self.id].addr))
        }
        pub fn set_ttl(&self, _ttl: u32) -> io::Result<()> {
            Ok(())
        }
        pub fn ttl(&self) -> io::Result<u32> {
            Ok(64)
        }
        pub fn take_error(&self) -> io::Result<Option<io::Error>> {
            Ok(None)
        }
    }

    /// What `accept_std` hands out: the connection as a std stream would be, not yet registered
    pub struct RawTcpStream(pub dsim::ConnId);

    impl RawTcpStream {
        pub fn set_nonblocking(&self, _on: bool) -> io::Result<()> {
            Ok(())
        }
        pub fn set_nodelay(&self, _on: bool) -> io::Result<()> {
            Ok(())
        }
        pub fn peer_addr(&self) -> io::Result<SocketAddr> {
            Ok(dsim::with(|w| w.conns[self.0].src))
        }
        pub fn local_addr(&self) -> io::Result<SocketAddr> {
            Ok(dsim::with(|w| w.conns[self.0].dst))
        }
    }

    impl Drop for TcpListener {
        fn drop(&mut self) {
            dsim::try_with(|w| {
                if self.id < w.listeners.len() {
                    w.listeners[self.id].closed = true;
                }
            });
        }
    }

    impl Evented for TcpListener {
        fn source(&self) -> dsim::Source {
            dsim::Source::Listener(self.id)
        }
    }

    pub struct TcpStream {
        id: dsim::ConnId,
    }

    impl TcpStream {
        pub fn from_stream(raw: RawTcpStream) -> io::Result<TcpStream> {
            Ok(TcpStream { id: raw.0 })
        }
        pub fn shutdown(&self, _how: Shutdown) -> io::Result<()> {
            dsim::yield_point(dsim::Op::Small);
            dsim::with(|w| w.tcp_shutdown(self.id));
            Ok(())
        }
        pub fn peer_addr(&self) -> io::Result<SocketAddr> {
            Ok(dsim::with(|w| w.conns[self.id].src))
        }
        pub fn local_addr(&self) -> io::Result<SocketAddr> {
            Ok(dsim::with(|w| w.conns[self.id].dst))
        }
        pub fn set_nodelay(&self, _on: bool) -> io::Result<()> {
            Ok(())
        }
        pub fn nodelay(&self) -> io::Result<bool> {
            Ok(false)
        }
        pub fn set_keepalive(&self, _d: Option<std::time::Duration>) -> io::Result<()> {
            Ok(())
        }
        pub fn set_linger(&self, _d: Option<std::time::Duration>) -> io::Result<()> {
            Ok(())
        }
        pub fn set_ttl(&self, _ttl: u32) -> io::Result<()> {
            Ok(())
        }
        pub fn set_recv_buffer_size(&self, _n: usize) -> io::Result<()> {
            Ok(())
        }
        pub fn set_send_buffer_size(&self, _n: usize) -> io::Result<()> {
            Ok(())
        }
        pub fn take_error(&self) -> io::Result<Option<io::Error>> {
            Ok(None)
        }
    }

    /// The health-check clients of the simulation never send anything: a read finds no data.
    impl io::Read for TcpStream {
        fn read(&mut self, _buf: &mut [u8]) -> io::Result<usize> {
            dsim::yield_point(dsim::Op::Small);
            Err(io::Error::new(io::ErrorKind::WouldBlock, "Resource temporarily unavailable (os error 11)"))
        }
    }

    impl Evented for TcpStream {
        fn source(&self) -> dsim::Source {
            // nothing ever becomes readable on a simulated health-check connection
            dsim::Source::Never
        }
    }

    impl io::Write for TcpStream {
        fn write(&mut self, buf: &[u8]) -> io::Result<usize> {
            dsim::yield_point(dsim::Op::Small);
            dsim::with(|w| w.tcp_write(self.id, buf))
        }
        fn flush(&mut self) -> io::Result<()> {
            Ok(())
        }
    }

    impl Drop for TcpStream {
        fn drop(&mut self) {
            // closing the descriptor ends the connection
            dsim::try_with(|w| {
                if self.id < w.conns.len() {
                    w.tcp_shutdown(self.id)
                }
            });
        }
    }
}
