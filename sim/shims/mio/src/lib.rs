//! Stand-in for mio 0.6 backed by the dsim kernel. Only the surface the repository uses.

use std::io;
use std::time::Duration;

pub trait Evented {
    fn source(&self) -> dsim::Source;
}

#[derive(Copy, Clone, Debug, PartialEq, Eq, PartialOrd, Ord, Hash)]
pub struct Token(pub usize);

#[derive(Copy, Clone, Debug, PartialEq, Eq)]
pub struct Ready(u8);

impl Ready {
    pub fn readable() -> Ready {
        Ready(1)
    }
    pub fn writable() -> Ready {
        Ready(2)
    }
    pub fn is_readable(&self) -> bool {
        self.0 & 1 != 0
    }
}

#[derive(Copy, Clone, Debug, PartialEq, Eq)]
pub struct PollOpt(u8);

impl PollOpt {
    pub fn edge() -> PollOpt {
        PollOpt(1)
    }
    pub fn level() -> PollOpt {
        PollOpt(2)
    }
}

#[derive(Copy, Clone, Debug)]
pub struct Event {
    token: Token,
}

impl Event {
    pub fn token(&self) -> Token {
        self.token
    }
    pub fn readiness(&self) -> Ready {
        Ready::readable()
    }
}

pub struct Events {
    cap: usize,
    inner: Vec<Event>,
}

impl Events {
    pub fn with_capacity(cap: usize) -> Events {
        Events { cap, inner: Vec::new() }
    }
    pub fn iter(&self) -> EventsIter<'_> {
        EventsIter { ev: self, pos: 0 }
    }
    pub fn len(&self) -> usize {
        self.inner.len()
    }
    pub fn is_empty(&self) -> bool {
        self.inner.is_empty()
    }
}

pub struct EventsIter<'a> {
    ev: &'a Events,
    pos: usize,
}

impl<'a> Iterator for EventsIter<'a> {
    type Item = Event;
    fn next(&mut self) -> Option<Event> {
        let r = self.ev.inner.get(self.pos).copied();
        self.pos += 1;
        r
    }
}

impl<'a> IntoIterator for &'a Events {
    type Item = Event;
    type IntoIter = EventsIter<'a>;
    fn into_iter(self) -> EventsIter<'a> {
        self.iter()
    }
}

pub struct Poll {
    id: dsim::PollId,
}

impl Poll {
    pub fn new() -> io::Result<Poll> {
        Ok(Poll { id: dsim::with(|w| w.poll_new()) })
    }

    pub fn register<E: ?Sized + Evented>(&self, handle: &E, token: Token, _interest: Ready, opts: PollOpt) -> io::Result<()> {
        assert_eq!(opts, PollOpt::edge(), "the mio stand-in models edge-triggered registration only");
        dsim::yield_point(dsim::Op::Small);
        dsim::with(|w| w.poll_register(self.id, handle.source(), token.0));
        Ok(())
    }

    pub fn poll(&self, events: &mut Events, timeout: Option<Duration>) -> io::Result<usize> {
        let toks = dsim::poll_wait(self.id, events.cap, timeout)?;
        events.inner.clear();
        events.inner.extend(toks.iter().map(|&t| Event { token: Token(t) }));
        Ok(events.inner.len())
    }
}

pub mod net {
    use super::Evented;
    use std::io;
    use std::net::{Shutdown, SocketAddr};

    /// What `net2::UdpBuilder::bind` hands over to `UdpSocket::from_socket`.
    pub struct RawUdp(pub dsim::SockId);

    pub struct UdpSocket {
        id: dsim::SockId,
    }

    impl UdpSocket {
        pub fn bind(addr: &SocketAddr) -> io::Result<UdpSocket> {
            dsim::yield_point(dsim::Op::Small);
            let id = dsim::with(|w| {
                let p = w.cur_proc();
                w.udp_socket(p)
            });
            dsim::with(|w| w.udp_bind(id, *addr))?;
            Ok(UdpSocket { id })
        }

        pub fn from_socket(raw: RawUdp) -> io::Result<UdpSocket> {
            Ok(UdpSocket { id: raw.0 })
        }

        pub fn local_addr(&self) -> io::Result<SocketAddr> {
            dsim::with(|w| w.socks[self.id].addr).ok_or_else(|| io::Error::new(io::ErrorKind::Other, "unbound"))
        }

        pub fn recv_from(&self, buf: &mut [u8]) -> io::Result<(usize, SocketAddr)> {
            dsim::udp_recv_from(self.id, buf)
        }

        pub fn send_to(&self, buf: &[u8], target: &SocketAddr) -> io::Result<usize> {
            dsim::udp_send_to(self.id, buf, *target)
        }

        pub fn sim_id(&self) -> dsim::SockId {
            self.id
        }
    }

    impl Drop for UdpSocket {
        fn drop(&mut self) {
            dsim::try_with(|w| {
                if self.id < w.socks.len() {
                    w.udp_close(self.id)
                }
            });
        }
    }

    impl Evented for UdpSocket {
        fn source(&self) -> dsim::Source {
            dsim::Source::Udp(self.id)
        }
    }

    pub struct TcpListener {
        id: dsim::ListenId,
    }

    /// What `net2::TcpBuilder::listen` hands over to `TcpListener::from_std`.
    pub struct RawTcpListener(pub dsim::ListenId);

    impl TcpListener {
        pub fn from_std(raw: RawTcpListener) -> io::Result<TcpListener> {
            Ok(TcpListener { id: raw.0 })
        }

        /// mio 0.6.23 `TcpListener::bind` sets SO_REUSEADDR only (net/tcp.rs) — a second listener on
        /// the same address fails with EADDRINUSE, which is what the kernel model does.
        pub fn bind(addr: &SocketAddr) -> io::Result<TcpListener> {
            dsim::yield_point(dsim::Op::Small);
            let id = dsim::with(|w| {
                let p = w.cur_proc();
                w.tcp_listen(p, *addr)
            })?;
            Ok(TcpListener { id })
        }

        pub fn accept(&self) -> io::Result<(TcpStream, SocketAddr)> {
            dsim::yield_point(dsim::Op::Small);
            let (c, a) = dsim::with(|w| w.tcp_accept(self.id))?;
            Ok((TcpStream { id: c }, a))
        }
    }

    impl Drop for TcpListener {
        fn drop(&mut self) {
            dsim::try_with(|w| {
                if self.id < w.listeners.len() {
                    w.listeners[self.id].closed = true;
                }
            });
        }
    }

    impl Evented for TcpListener {
        fn source(&self) -> dsim::Source {
            dsim::Source::Listener(self.id)
        }
    }

    pub struct TcpStream {
        id: dsim::ConnId,
    }

    impl TcpStream {
        pub fn shutdown(&self, _how: Shutdown) -> io::Result<()> {
            dsim::yield_point(dsim::Op::Small);
            dsim::with(|w| w.tcp_shutdown(self.id));
            Ok(())
        }
    }

    impl io::Write for TcpStream {
        fn write(&mut self, buf: &[u8]) -> io::Result<usize> {
            dsim::yield_point(dsim::Op::Small);
            dsim::with(|w| w.tcp_write(self.id, buf))
        }
        fn flush(&mut self) -> io::Result<()> {
            Ok(())
        }
    }

    impl Drop for TcpStream {
        fn drop(&mut self) {
            // closing the descriptor ends the connection
            dsim::try_with(|w| {
                if self.id < w.conns.len() {
                    w.tcp_shutdown(self.id)
                }
            });
        }
    }
}
