//! Plans: everything about a simulated execution that is decided up front, as explicit data.
//! plan + tape = one exactly repeatable execution.

use serde::{Deserialize, Serialize};
use std::collections::BTreeMap;

#[derive(Serialize, Deserialize, Clone, Debug, PartialEq)]
pub struct FaultsSpec {
    #[serde(default)]
    pub c2s_drop: u32,
    #[serde(default)]
    pub c2s_dup: u32,
    #[serde(default)]
    pub c2s_delay: u32,
    #[serde(default)]
    pub c2s_phantom: u32,
    #[serde(default)]
    pub c2s_truncate: u32,
    #[serde(default)]
    pub s2c_drop: u32,
    #[serde(default)]
    pub s2c_dup: u32,
    #[serde(default)]
    pub s2c_delay: u32,
    #[serde(default)]
    pub delay_max_us: u32,
    #[serde(default)]
    pub send_err: u32,
    #[serde(default)]
    pub recv_err: u32,
    #[serde(default)]
    pub poll_spurious: u32,
    #[serde(default)]
    pub timer_late: u32,
    #[serde(default)]
    pub accept_err: u32,
    #[serde(default)]
    pub tcp_write_err: u32,
    #[serde(default)]
    pub postpone: u32,
    #[serde(default)]
    pub postpone_max_us: u32,
    #[serde(default)]
    pub file_create_err: u32,
    #[serde(default)]
    pub file_write_err: u32,
    #[serde(default)]
    pub disk_stall: u32,
    #[serde(default)]
    pub disk_stall_max_ms: u32,
}

impl Default for FaultsSpec {
    fn default() -> Self {
        FaultsSpec {
            c2s_drop: 0,
            c2s_dup: 0,
            c2s_delay: 0,
            c2s_phantom: 0,
            c2s_truncate: 0,
            s2c_drop: 0,
            s2c_dup: 0,
            s2c_delay: 0,
            delay_max_us: 0,
            send_err: 0,
            recv_err: 0,
            poll_spurious: 0,
            timer_late: 0,
            accept_err: 0,
            tcp_write_err: 0,
            postpone: 0,
            postpone_max_us: 0,
            file_create_err: 0,
            file_write_err: 0,
            disk_stall: 0,
            disk_stall_max_ms: 0,
        }
    }
}

impl FaultsSpec {
    pub fn to_dsim(&self) -> dsim::Faults {
        dsim::Faults {
            c2s_drop: self.c2s_drop,
            c2s_dup: self.c2s_dup,
            c2s_delay: self.c2s_delay,
            c2s_phantom: self.c2s_phantom,
            c2s_truncate: self.c2s_truncate,
            s2c_drop: self.s2c_drop,
            s2c_dup: self.s2c_dup,
            s2c_delay: self.s2c_delay,
            delay_max_us: self.delay_max_us,
            send_err: self.send_err,
            recv_err: self.recv_err,
            poll_spurious: self.poll_spurious,
            timer_late: self.timer_late,
            accept_err: self.accept_err,
            tcp_write_err: self.tcp_write_err,
            postpone: self.postpone,
            postpone_max_us: self.postpone_max_us,
            file_create_err: self.file_create_err,
            file_write_err: self.file_write_err,
            disk_stall: self.disk_stall,
            disk_stall_max_ms: self.disk_stall_max_ms,
        }
    }
    pub fn any(&self) -> bool {
        *self != FaultsSpec::default()
    }
    /// faults that can legitimately cost a request its response at the server boundary
    pub fn any_server_side(&self) -> bool {
        self.send_err > 0 || self.recv_err > 0
    }
}

#[derive(Serialize, Deserialize, Clone, Debug, PartialEq)]
pub enum StrategySpec {
    Uniform,
    Sticky(u32),
    StarveOne(u32),
}

#[derive(Serialize, Deserialize, Clone, Debug, PartialEq)]
pub struct WorldSpec {
    pub horizon_ms: u64,
    pub step_cap: u64,
    pub wall_secs: u64,
    pub wall_nanos: u32,
    pub cost_scale: u64,
    pub strategy: StrategySpec,
    /// None = arbitrary per datagram, Some(salt) = stable flow hash
    pub flow_hash: Option<u64>,
    #[serde(default)]
    pub round_robin: bool,
    pub latency_us: u64,
    pub latency_jitter_us: u64,
    pub rcv_cap: usize,
    pub cores: usize,
    pub faults: FaultsSpec,
    pub faults_until_ms: u64,
    pub entropy_seed: u64,
    pub aux_seed: u64,
    #[serde(default)]
    pub spawn_latency_us: u64,
    /// the TZ variable of the machine (a POSIX string with a fixed offset); None = UTC
    #[serde(default)]
    pub tz: Option<String>,
}

impl WorldSpec {
    pub fn plain(seed: u64) -> WorldSpec {
        WorldSpec {
            horizon_ms: 3_000,
            step_cap: 1_000_000,
            wall_secs: 1_700_000_000,
            wall_nanos: 0,
            cost_scale: 1000,
            strategy: StrategySpec::Uniform,
            flow_hash: Some(0),
            round_robin: false,
            latency_us: 50,
            latency_jitter_us: 20,
            rcv_cap: 512,
            cores: 4,
            faults: FaultsSpec::default(),
            faults_until_ms: u64::MAX / 2_000_000,
            entropy_seed: seed ^ 0x5eed,
            aux_seed: seed ^ 0xa11,
            spawn_latency_us: 0,
            tz: None,
        }
    }

    pub fn to_cfg(&self) -> dsim::Cfg {
        dsim::Cfg {
            horizon: self.horizon_ms * dsim::MS,
            step_cap: self.step_cap,
            wall_start: self.wall_secs as i128 * dsim::SEC as i128 + self.wall_nanos as i128,
            cost_scale: self.cost_scale,
            faults: self.faults.to_dsim(),
            faults_until: self.faults_until_ms.saturating_mul(dsim::MS),
            strategy: match self.strategy {
                StrategySpec::Uniform => dsim::Strategy::Uniform,
                StrategySpec::Sticky(q) => dsim::Strategy::Sticky(q),
                StrategySpec::StarveOne(k) => dsim::Strategy::StarveOne(k),
            },
            distribution: if self.round_robin {
                dsim::Distribution::RoundRobin
            } else {
                match self.flow_hash {
                    Some(s) => dsim::Distribution::FlowHash(s),
                    None => dsim::Distribution::Arbitrary,
                }
            },
            latency_us: self.latency_us,
            latency_jitter_us: self.latency_jitter_us,
            rcv_cap: self.rcv_cap,
            cores: self.cores,
            entropy_seed: self.entropy_seed,
            aux_seed: self.aux_seed,
            stack_size: 1 << 20,
            spawn_latency_us: self.spawn_latency_us,
        }
    }
}

#[derive(Serialize, Deserialize, Clone, Copy, Debug, PartialEq, Eq, Hash, PartialOrd, Ord)]
pub enum P {
    Classic,
    Ietf,
}

impl P {
    pub fn r(self) -> refimpl::Proto {
        match self {
            P::Classic => refimpl::Proto::Classic,
            P::Ietf => refimpl::Proto::Ietf,
        }
    }
}

#[derive(Serialize, Deserialize, Clone, Debug, PartialEq)]
pub enum SrvMode {
    Absent,
    Correct,
    /// another server's value derived from this number
    Other(u64),
    /// the correct value with one bit flipped
    BitFlip(u16),
    /// the correct value truncated / zero-extended to this length
    Len(u16),
}

#[derive(Serialize, Deserialize, Clone, Debug, PartialEq)]
pub enum Mutation {
    Truncate(u32),
    Extend(u32),
    FlipBit(u32),
    SetWord { index: u32, value: u32 },
    FrameLenDelta(i32),
    FrameLen(u32),
    /// overwrite `len` bytes at `pos` with bytes derived from `seed`
    Scribble { pos: u32, len: u32, seed: u64 },
    /// re-encode the (possibly framed) message with fields `i` and `j` exchanged: tags out of
    /// ascending order, everything else consistent (no-op when the datagram does not decode)
    SwapFields(u8, u8),
    /// re-encode with field `i` repeated (tag order no longer strictly ascending)
    RepeatField(u8),
    /// re-encode without field `i` (a well-formed message that lacks NONC, VER, the padding, ...)
    DropField(u8),
    /// re-encode with one more field (a known tag, `len` zero bytes) at its place in tag order
    AppendField { tag: u32, len: u16 },
    /// overwrite the `index`-th offset word of the (possibly framed) message header
    SetOffset { index: u8, value: u32 },
    /// re-encode with field `tag` set to `value` (added at its place in tag order, or replaced):
    /// e.g. a classic request that also carries a VER tag, an IETF request with an INDX tag
    PutField { tag: u32, value: Vec<u8> },
}

#[derive(Serialize, Deserialize, Clone, Debug, PartialEq)]
pub enum ReqSpec {
    /// standard request
    Valid { proto: P, size: u16, nonce_seed: u64, srv: SrvMode, vers: Vec<u32> },
    /// well-formed request with a nonce of an arbitrary (aligned) length, padded to `size`
    NonceLen { proto: P, size: u16, nonce_len: u16, nonce_seed: u64 },
    /// IETF request whose VER field is absent (None) or has the given raw bytes
    RawVer { size: u16, nonce_seed: u64, ver: Option<Vec<u8>>, srv: SrvMode },
    Mutant { base: Box<ReqSpec>, muts: Vec<Mutation> },
    Garbage { len: u32, seed: u64 },
    Hex(String),
}

#[derive(Serialize, Deserialize, Clone, Debug, PartialEq)]
pub enum ConfigSource {
    Memory,
    File,
    Env,
}

#[derive(Serialize, Deserialize, Clone, Debug, PartialEq)]
pub enum Mode {
    /// harness-spawned `Server` instances, real `process_events` loop
    W,
    /// the repository's own `main()` booted from a config
    F,
}

#[derive(Serialize, Deserialize, Clone, Debug, PartialEq)]
pub struct ServerSpec {
    pub mode: Mode,
    pub workers: i64,
    /// None = not written (the default applies)
    pub workers_written: bool,
    pub batch_size: i64,
    pub batch_written: bool,
    pub fault_pct: i64,
    pub fault_written: bool,
    /// 0 Off .. 5 Trace; None = whatever the binary selects
    pub log_level: Option<u8>,
    pub seed_hex: String,
    pub interface: String,
    pub port: i64,
    pub health_port: Option<i64>,
    pub status_interval: Option<i64>,
    pub client_stats: Option<String>,
    pub persist_dir: Option<String>,
    pub source: ConfigSource,
    /// extra raw YAML lines / environment variables (C16: unknown keys etc.)
    pub extra: Vec<(String, String)>,
    /// keys to leave out of the generated config (C16: missing required settings)
    pub omit: Vec<String>,
    /// replace the generated config file text entirely (e.g. example.cfg)
    pub raw_text: Option<String>,
    pub stats_limit: Option<i64>,
    /// the seed exactly as written into the file / environment (unquoted) when it differs from
    /// `seed_hex` or must not be quoted: a numeric-looking seed written bare, a seed with
    /// trailing characters
    #[serde(default)]
    pub seed_written: Option<String>,
    /// how a configuration file is laid out: 0 = the keys in the README's order; anything else
    /// seeds a shuffle of the keys, comment lines, and (where it changes nothing: statistics off)
    /// a `persistence_directory:` key left blank
    #[serde(default)]
    pub layout: u64,
}

impl ServerSpec {
    pub fn basic(mode: Mode, seed_hex: &str) -> ServerSpec {
        ServerSpec {
            mode,
            workers: 1,
            workers_written: true,
            batch_size: 64,
            batch_written: true,
            fault_pct: 0,
            fault_written: false,
            log_level: None,
            seed_hex: seed_hex.to_string(),
            interface: "127.0.0.1".to_string(),
            port: 2002,
            health_port: None,
            status_interval: None,
            client_stats: None,
            persist_dir: None,
            source: ConfigSource::Memory,
            extra: vec![],
            omit: vec![],
            raw_text: None,
            stats_limit: None,
            seed_written: None,
            layout: 0,
        }
    }
}

#[derive(Serialize, Deserialize, Clone, Debug, PartialEq)]
pub enum Forgery {
    /// flip one bit inside a named region of the honest response
    FlipBit { region: String, bit: u32 },
    /// overwrite a named region with bytes derived from seed
    Rewrite { region: String, seed: u64 },
    /// whole chain re-signed by a different long-term key
    OtherLongTermKey(u64),
    /// SREP signed by a key other than the certified one
    OtherOnlineKey(u64),
    /// built with the other protocol's contexts / framing / hash width
    CrossProtocol,
    /// cross-protocol delegation context only
    WrongDeleContext,
    /// PATH/INDX/SREP taken from the honest response to another request of this run
    SpliceFrom(u32),
    /// an honest response to an earlier request (same run) delivered instead
    ReplayEarlier(u32),
    /// an honest response recorded in the previous incarnation
    ReplayPreviousRun(u32),
    /// truncate the datagram to this many bytes
    Truncate(u32),
    /// random byte mutations
    Mutate { count: u32, seed: u64 },
    /// genuine narrow delegation window, correctly signed SREP whose midpoint lies outside it
    MidpointOutsideWindow { before: bool },
    /// proof for a different leaf (nonce/request altered before hashing)
    WrongLeaf,
    /// a replay dressed up: the signed part belongs to a different request, PATH is emptied, INDX
    /// is 0 and an unsigned top-level ROOT carries the leaf hash of the client's own request
    /// (what a verifier that looks for ROOT outside the signed SREP would compare with)
    LooseRoot,
    /// a proof for a different request whose PATH is cut or padded to a length that is no whole
    /// number of nodes (what a verifier that gives up on a malformed path might let through)
    RaggedPath(u32),
    /// an unsigned top-level copy of a tag that counts only inside the signed parts, with a
    /// different value (decoration: by itself it leaves a response as authentic as it was)
    ShadowTag { tag: String, seed: u64 },
    /// index changed to another in-range value, path untouched
    WrongIndex(u32),
    /// add / remove one path element
    PathExtra,
    PathShort,
    /// a key-holding but malicious server: ROOT replaced by the first `len` bytes of the true root
    /// (0 = empty) and the SREP re-signed with the genuine delegated key
    ResignedShortRoot(u32),
    /// the same with a different root of the right width
    ResignedWrongRoot(u64),
    /// the same with a root that keeps the first `keep` bytes of the true root (the rest differs
    /// in every byte): what a prefix-only comparison would let through
    ResignedRootPrefixKept(u32),
    /// the same with a root made of one repeated byte
    ResignedFillRoot(u8),
    /// a named region filled with one repeated byte (all-zero / all-0xff signatures, keys, ...)
    Fill { region: String, byte: u8 },
    /// drop the response (timeout path)
    Drop,
    /// deliver the honest response twice
    Duplicate,
}

#[derive(Serialize, Deserialize, Clone, Debug, PartialEq)]
pub struct RefServerSpec {
    pub port: u16,
    pub long_seed: u64,
    pub online_seed: u64,
    /// per request ordinal (in arrival order): index, depth, midpoint, forgeries
    pub slots: Vec<SlotSpec>,
}

#[derive(Serialize, Deserialize, Clone, Debug, PartialEq)]
pub struct SlotSpec {
    pub index: u32,
    pub depth: u32,
    pub midp_secs: u64,
    pub midp_sub_us: u32,
    pub forgeries: Vec<Forgery>,
    pub sibling_seed: u64,
    pub delay_us: u64,
    /// honest delegation window relative to the signed midpoint:
    /// 0 = [0, u64::MAX]; 1 = MINT == MIDP; 2 = MAXT == MIDP; 3 = MINT == MIDP == MAXT;
    /// 4 = [MIDP-1, MIDP+1]
    #[serde(default)]
    pub window: u8,
    /// a classic response without the top-level NONC tag (another legal layout: the client must
    /// bind the response to its own nonce, not to an echoed one)
    #[serde(default)]
    pub no_nonc: bool,
}

#[derive(Serialize, Deserialize, Clone, Debug, PartialEq)]
pub enum Action {
    StartServer,
    Send { sock: u32, req: ReqSpec },
    /// a TCP connection to the health-check port; `reset`: the client resets it at once, so the
    /// server's write fails while the connection itself is accepted normally
    Health {
        id: u32,
        #[serde(default)]
        reset: bool,
    },
    Signal { sig: i32 },
    /// deliver the signal when the scheduler has taken this many steps (a crash point of a baseline)
    SignalAtStep { step: u64, sig: i32 },
    CrashAtStep { step: u64 },
    /// another program already holds this TCP port (no SO_REUSEPORT) / this UDP port
    ForeignTcpListen { port: u16 },
    ForeignUdpBind { port: u16 },
    /// change a fault rate at run time (a condition that sets in and persists: e.g. every
    /// recv_from failing with ENOBUFS while memory is short); kinds: recv_err, send_err
    SetFault { kind: String, permille: u32 },
    /// the server process runs out of file descriptors (accept fails with EMFILE) / gets them back
    FdExhaustion { on: bool },
    WallStepMs(i64),
    WallSet { secs: u64, nanos: u32 },
    WallFreeze { secs: u64, nanos: u32 },
    WallUnfreeze,
    Crash,
    Restart,
    RunClient { argv: Vec<String> },
    ClosedLoop { sock: u32, protos: Vec<P>, count: u32, think_us: u64, timeout_ms: u64 },
    /// open-loop stream of one datagram (or, for `payload` "mixed", two alternating ones) at a
    /// fixed rate. `payload`: "valid" (default), "wrong_srv", "garbage", "empty", "short", "mixed"
    Flood {
        sock: u32,
        proto: P,
        interval_ns: u64,
        count: u32,
        #[serde(default)]
        payload: Option<String>,
    },
    /// `count` distinct valid requests (nonce seeds `nonce_base..`), one every `interval_ns`,
    /// rotating over `socks` client sockets starting at `first_sock`; `ietf_permille` of them
    /// IETF. One plan step stands for a long run (tens of thousands of requests).
    /// `burst_max` > 1: requests leave in groups of 1..=burst_max (seeded), the pause after a
    /// group growing with it, so that batches of every size get signed.
    Stream {
        first_sock: u32,
        socks: u32,
        ietf_permille: u32,
        interval_ns: u64,
        count: u32,
        nonce_base: u64,
        #[serde(default)]
        burst_max: u32,
    },
    StartRefServer(RefServerSpec),
    /// The real statistics `Reporter` on a queue of its own, fed by a harness task that plays the
    /// workers: snapshots with chosen magnitudes at chosen times (counts no traffic of a simulated
    /// run can reach). `pushes`: (microseconds after the start, rows of (address index, the eight
    /// counters in the order of the CSV check)); the reporter is stopped `linger_ms` after the
    /// last push.
    ReporterDirect { interval_s: u64, pushes: Vec<(u64, Vec<(u8, [u64; 8])>)>, linger_ms: u64 },
}

#[derive(Serialize, Deserialize, Clone, Debug, PartialEq)]
pub struct Step {
    pub at_us: u64,
    pub act: Action,
}

#[derive(Serialize, Deserialize, Clone, Debug, PartialEq)]
pub struct Plan {
    pub property: String,
    pub scenario: String,
    pub seed: u64,
    pub world: WorldSpec,
    pub server: Option<ServerSpec>,
    pub steps: Vec<Step>,
    #[serde(default)]
    pub params: BTreeMap<String, i64>,
}

impl Plan {
    pub fn new(property: &str, scenario: &str, seed: u64) -> Plan {
        Plan { property: property.to_string(), scenario: scenario.to_string(), seed, world: WorldSpec::plain(seed), server: None, steps: vec![], params: BTreeMap::new() }
    }
    pub fn step(&mut self, at_us: u64, act: Action) {
        self.steps.push(Step { at_us, act });
    }
    pub fn p(&self, k: &str) -> i64 {
        self.params.get(k).copied().unwrap_or(0)
    }
    pub fn last_step_us(&self) -> u64 {
        self.steps.iter().map(|s| s.at_us).max().unwrap_or(0)
    }
}

#[derive(Serialize, Deserialize, Clone, Debug, PartialEq)]
pub struct Violation {
    pub property: String,
    pub class: String,
    /// class + the minimal distinguishing parameters: the unit of minimisation and of the
    /// known-findings file
    pub signature: String,
    pub detail: String,
}

#[derive(Serialize, Deserialize, Clone, Debug)]
pub struct Replay {
    pub property: String,
    pub seed: u64,
    pub plan: Plan,
    pub tape: Vec<u32>,
    pub violation: Violation,
    pub history_digest: String,
    pub events: Vec<String>,
    pub repo_tree: String,
}
