//! Deterministic construction of datagrams from `ReqSpec`s.

use crate::plan::*;
use dsim::rng::Rng;
use refimpl as r;

/// Nonce number `seed`: random bytes, except that one nonce in six carries a pattern a
/// data-dependent defect could key on (zero / 0xff runs, tag- and magic-like words, one repeated
/// byte). At least the last 8 bytes stay random, so nonces remain unique per `seed`.
pub fn nonce_bytes(seed: u64, len: usize) -> Vec<u8> {
    let mut v = vec![0u8; len];
    let mut rng = Rng::derive(seed, "nonce");
    rng.fill(&mut v);
    if len < 16 || rng.below(6) != 0 {
        return v;
    }
    let body = len - 8;
    match rng.below(12) {
        0 => v[..4].fill(0),
        1 => v[0] = 0,
        2 => v[..body].fill(0),
        3 => v[..body].fill(0xff),
        4 => v[..8].copy_from_slice(b"ROUGHTIM"),
        5 => v[..4].copy_from_slice(b"NONC"),
        6 => v[..4].copy_from_slice(b"ZZZZ"),
        7 => v[..4].copy_from_slice(b"PAD\xff"),
        8 => {
            let b = rng.below(256) as u8;
            v[..body].fill(b)
        }
        9 => v[body - 4..body].copy_from_slice(&[0xff; 4]),
        10 => {
            // a little-endian word that reads as a plausible count / offset / version
            let w = *rng.pick(&[0u32, 1, 2, 4, 32, 64, 1024, 0x8000_000d, 0xffff_ffff]);
            let at = 4 * rng.below((body / 4) as u64) as usize;
            v[at..at + 4].copy_from_slice(&w.to_le_bytes())
        }
        _ => {
            let at = rng.below(body as u64) as usize;
            v[at] = *rng.pick(&[0u8, 0xff, 0x0a, 0x22, 0x25, 0x7f, 0x80])
        }
    }
    v
}

pub fn srv_bytes(mode: &SrvMode, correct: &[u8]) -> Option<Vec<u8>> {
    match mode {
        SrvMode::Absent => None,
        SrvMode::Correct => Some(correct.to_vec()),
        SrvMode::Other(n) => {
            let mut seed = [0u8; 32];
            Rng::derive(*n, "other-server").fill(&mut seed);
            Some(r::srv_value(&r::pubkey_from_seed(&seed)))
        }
        SrvMode::BitFlip(b) => {
            let mut v = correct.to_vec();
            let b = *b as usize % (v.len() * 8);
            v[b / 8] ^= 1 << (b % 8);
            Some(v)
        }
        SrvMode::Len(l) => {
            let mut v = correct.to_vec();
            v.resize(*l as usize, 0);
            Some(v)
        }
    }
}

/// A valid request for closed-loop clients: mostly what the project's client sends (1024
/// bytes, no SRV, one version), one in four at a boundary of what the protocol allows (largest
/// and near-largest datagram, SRV present, several offered versions).
pub fn valid_variant(proto: P, nonce_seed: u64) -> ReqSpec {
    let mut rng = Rng::derive(nonce_seed, "valid-variant");
    let mut spec = (1024u16, SrvMode::Absent, vec![r::VER_DRAFT13]);
    if rng.below(4) == 0 {
        spec.0 = *rng.pick(&[1024u16, 1028, 1036, 1280, 1496, 1500, 1500]);
        if proto == P::Ietf {
            if rng.chance(1, 2) {
                spec.1 = SrvMode::Correct;
            }
            if rng.chance(1, 2) {
                spec.2 = match rng.below(3) {
                    0 => vec![0x8000_0001, r::VER_DRAFT13],
                    1 => vec![r::VER_DRAFT13, 0x8000_000e],
                    _ => vec![1, 2, 3, r::VER_DRAFT13],
                };
            }
        }
    }
    ReqSpec::Valid { proto, size: spec.0, nonce_seed, srv: spec.1, vers: spec.2 }
}

fn round4(n: usize) -> usize {
    n / 4 * 4
}

pub fn build(spec: &ReqSpec, srv: &[u8]) -> Vec<u8> {
    match spec {
        ReqSpec::Valid { proto, size, nonce_seed, srv: sm, vers } => {
            let p = proto.r();
            let nonce = nonce_bytes(*nonce_seed, p.nonce_len());
            let s = srv_bytes(sm, srv);
            r::build_request(p, &nonce, round4(*size as usize), s.as_deref(), vers)
        }
        ReqSpec::NonceLen { proto, size, nonce_len, nonce_seed } => {
            let p = proto.r();
            let nonce = nonce_bytes(*nonce_seed, *nonce_len as usize);
            r::build_request(p, &nonce, round4(*size as usize), None, &[r::VER_DRAFT13])
        }
        ReqSpec::RawVer { size, nonce_seed, ver, srv: sm } => {
            let nonce = nonce_bytes(*nonce_seed, 32);
            let mut m = r::Msg::new();
            if let Some(v) = ver {
                m.put(r::VER, v);
            }
            if let Some(s) = srv_bytes(sm, srv) {
                m.put(r::SRV, &s);
            }
            m.put(r::NONC, &nonce);
            m.put(r::ZZZZ, &[]);
            let base = m.encode().len() + 12;
            let pad = round4(*size as usize).saturating_sub(base);
            m.put(r::ZZZZ, &vec![0u8; pad]);
            m.encode_framed()
        }
        ReqSpec::Mutant { base, muts } => {
            let mut d = build(base, srv);
            for m in muts {
                apply(&mut d, m);
            }
            d
        }
        ReqSpec::Garbage { len, seed } => {
            let mut v = vec![0u8; *len as usize];
            Rng::derive(*seed, "garbage").fill(&mut v);
            v
        }
        ReqSpec::Hex(h) => (0..h.len() / 2).map(|i| u8::from_str_radix(&h[2 * i..2 * i + 2], 16).unwrap_or(0)).collect(),
    }
}

pub fn apply(d: &mut Vec<u8>, m: &Mutation) {
    match m {
        Mutation::Truncate(n) => d.truncate(*n as usize),
        Mutation::Extend(n) => d.extend(std::iter::repeat(0u8).take(*n as usize)),
        Mutation::FlipBit(b) => {
            if !d.is_empty() {
                let b = *b as usize % (d.len() * 8);
                d[b / 8] ^= 1 << (b % 8);
            }
        }
        Mutation::SetWord { index, value } => {
            let at = *index as usize * 4;
            if at + 4 <= d.len() {
                d[at..at + 4].copy_from_slice(&value.to_le_bytes());
            }
        }
        Mutation::FrameLenDelta(delta) => {
            if d.len() >= 12 {
                let cur = u32::from_le_bytes([d[8], d[9], d[10], d[11]]);
                let v = (cur as i64 + *delta as i64) as u32;
                d[8..12].copy_from_slice(&v.to_le_bytes());
            }
        }
        Mutation::FrameLen(v) => {
            if d.len() >= 12 {
                d[8..12].copy_from_slice(&v.to_le_bytes());
            }
        }
        Mutation::SetOffset { index, value } => {
            let base = if d.len() >= 12 && &d[..8] == r::MAGIC { 12 } else { 0 };
            if d.len() >= base + 4 {
                let n = u32::from_le_bytes([d[base], d[base + 1], d[base + 2], d[base + 3]]) as usize;
                if n >= 2 {
                    let at = base + 4 + 4 * (*index as usize % (n - 1));
                    if at + 4 <= d.len() {
                        d[at..at + 4].copy_from_slice(&value.to_le_bytes());
                    }
                }
            }
        }
        Mutation::SwapFields(..) | Mutation::RepeatField(..) | Mutation::DropField(..) | Mutation::AppendField { .. } | Mutation::PutField { .. } => {
            let framed = d.len() >= 12 && &d[..8] == r::MAGIC;
            let payload = if framed { &d[12..] } else { &d[..] };
            if let Ok((mut msg, _)) = r::decode(payload) {
                let n = msg.fields.len();
                match m {
                    Mutation::SwapFields(i, j) if n >= 2 => msg.fields.swap(*i as usize % n, *j as usize % n),
                    Mutation::RepeatField(i) if n >= 1 => {
                        let f = msg.fields[*i as usize % n].clone();
                        msg.fields.insert(*i as usize % n, f)
                    }
                    Mutation::DropField(i) if n >= 1 => {
                        msg.fields.remove(*i as usize % n);
                    }
                    Mutation::AppendField { tag, len } => {
                        if !msg.has(*tag) {
                            msg.put(*tag, &vec![0u8; *len as usize / 4 * 4]);
                        }
                    }
                    Mutation::PutField { tag, value } => {
                        msg.put(*tag, value);
                    }
                    _ => {}
                }
                let enc = msg.encode();
                *d = if framed { r::frame(&enc) } else { enc };
            }
        }
        Mutation::Scribble { pos, len, seed } => {
            if !d.is_empty() {
                let pos = *pos as usize % d.len();
                let end = (pos + *len as usize).min(d.len());
                Rng::derive(*seed, "scribble").fill(&mut d[pos..end]);
            }
        }
    }
}

/// Address of harness client socket number `sock`.
pub fn client_addr(sock: u32) -> std::net::SocketAddr {
    // one socket in thirteen sits at the edges of the address / port space (injective in `sock`
    // below 30000: the third octet fixes sock / 200, the port the rest)
    // sockets 40000..40255: datagrams from source port 0 (a raw socket can send them, Linux
    // delivers them, and nothing can be sent back: sendto() to port 0 fails with EINVAL)
    if (40_000..40_256).contains(&sock) {
        let ip = std::net::Ipv4Addr::new(10, 77, 0, (sock - 40_000) as u8);
        return std::net::SocketAddr::new(std::net::IpAddr::V4(ip), 0);
    }
    if sock % 13 == 7 && sock < 30_000 {
        let ip = std::net::Ipv4Addr::new(223, 255, (sock / 200) as u8, 255);
        return std::net::SocketAddr::new(std::net::IpAddr::V4(ip), 65_535 - (sock % 200) as u16 * 256);
    }
    let ip = std::net::Ipv4Addr::new(10, 0, (sock / 200) as u8, (sock % 200 + 1) as u8);
    std::net::SocketAddr::new(std::net::IpAddr::V4(ip), 5000 + (sock % 50_000) as u16)
}
