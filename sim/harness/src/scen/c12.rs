//! C12 — IETF requests answered iff they name a supported version and this server (mode W).
//! The request matrix is enumerated completely, in slices across runs.

use super::common::*;
use super::*;
use crate::view::View;
use refimpl as r;

pub const ALPHABET: [u32; 5] = [r::VER_DRAFT13, r::VER_CLASSIC, 0x8000_000b, 0x8000_000d, 0x0000_000c];
pub const LISTS: u64 = 19_531; // sum_{k=0..6} 5^k
pub const SRV_MODES: u64 = 3;
pub const EXTRA: u64 = 256 + 5 + 1 + 1 + 12; // bit flips, lengths, another server, VER absent, long lists
pub const VARIANTS: u64 = LISTS * SRV_MODES + EXTRA;
pub const PER_RUN: u64 = 60;

fn budget(t: Tier) -> u64 {
    let once = (VARIANTS + PER_RUN - 1) / PER_RUN;
    match t {
        Tier::Quick => once,
        Tier::Thorough => once * 200,
    }
}

/// the n-th version list in length-then-lexicographic order
pub fn list_of(mut n: u64) -> Vec<u32> {
    let mut len = 0u32;
    let mut block = 1u64;
    while n >= block {
        n -= block;
        block *= 5;
        len += 1;
    }
    let mut v = vec![0u32; len as usize];
    for i in (0..len as usize).rev() {
        v[i] = ALPHABET[(n % 5) as usize];
        n /= 5;
    }
    v
}

pub fn variant(k: u64, nonce_seed: u64) -> ReqSpec {
    let size = 1024;
    if k < LISTS * SRV_MODES {
        let list = list_of(k / SRV_MODES);
        let srv = match k % SRV_MODES {
            0 => SrvMode::Absent,
            1 => SrvMode::Correct,
            _ => SrvMode::Other(k),
        };
        let ver: Vec<u8> = list.iter().flat_map(|v| v.to_le_bytes()).collect();
        // the empty list is sent as a present-but-empty VER; VER absent is one of the extras
        ReqSpec::RawVer { size, nonce_seed, ver: Some(ver), srv }
    } else {
        let e = k - LISTS * SRV_MODES;
        let minimal = Some(r::VER_DRAFT13.to_le_bytes().to_vec());
        if e < 256 {
            ReqSpec::RawVer { size, nonce_seed, ver: minimal, srv: SrvMode::BitFlip(e as u16) }
        } else if e < 261 {
            ReqSpec::RawVer { size, nonce_seed, ver: minimal, srv: SrvMode::Len([0u16, 4, 28, 36, 64][(e - 256) as usize]) }
        } else if e == 261 {
            ReqSpec::RawVer { size, nonce_seed, ver: minimal, srv: SrvMode::Other(0xabcdef) }
        } else if e == 262 {
            ReqSpec::RawVer { size, nonce_seed, ver: None, srv: SrvMode::Absent }
        } else {
            // long version lists (8, 32 or 64 entries of unknown versions) with draft-13 at one
            // position: first, fourth, fifth (beyond the four the server must look at), last
            let j = e - 263;
            let len = [8usize, 32, 64][(j / 4) as usize];
            let pos = [0usize, 3, 4, len - 1][(j % 4) as usize];
            let mut list: Vec<u32> = (0..len as u32).map(|i| 0x8000_0100 + i).collect();
            list[pos] = r::VER_DRAFT13;
            ReqSpec::RawVer { size, nonce_seed, ver: Some(list.iter().flat_map(|v| v.to_le_bytes()).collect()), srv: if j % 2 == 0 { SrvMode::Absent } else { SrvMode::Correct } }
        }
    }
}

fn gen(seed: u64, idx: u64, _tier: Tier) -> Plan {
    let mut rng = Rng::derive(seed, "c12");
    let mut plan = Plan::new("C12", "c12.version_matrix", seed);
    let mut s = ServerSpec::basic(Mode::W, &random_seed_hex(&mut rng));
    s.workers = *rng.pick(&[1i64, 1, 2]);
    s.batch_size = *rng.pick(&[1i64, 8, 64]);
    s.log_level = Some(0);
    // one run in eight boots the repository's own main() instead, under a seeded combination of
    // the settings that shape the process around the workers (none of them may change which
    // requests are answered)
    let full = idx % 8 == 5;
    if full {
        plan.scenario = "c12.version_matrix_full_process".into();
        s.workers = *rng.pick(&[1i64, 1, 2, 3]);
        process_settings(&mut rng, &mut s);
    }
    world_knobs(&mut rng, &mut plan, false);
    if rng.chance(1, 4) {
        // transient send_to / recv_from errors: what the worker does right after one must not
        // change what the next request gets
        plan.world.faults.send_err = *rng.pick(&[30u32, 100]);
        plan.world.faults.recv_err = *rng.pick(&[0u32, 30]);
    }
    // the matrix is enumerated completely: no variant may be lost to a full receive queue
    plan.world.rcv_cap = 1 << 16;
    plan.server = Some(s);
    let once = (VARIANTS + PER_RUN - 1) / PER_RUN;
    let slice = idx % once;
    plan.params.insert("slice".into(), slice as i64);
    let sockets = 8 + rng.below(40) as u32;
    let mut ctr = seed ^ 0xc12;
    let mut t = if full { 25_000u64 } else { 6000 };
    for j in 0..PER_RUN {
        let k = slice * PER_RUN + j;
        if k >= VARIANTS {
            break;
        }
        // unrelated traffic around each variant
        for _ in 0..rng.below(3) {
            let spec = if rng.chance(1, 4) { storm_spec(&mut rng, &mut ctr) } else { valid_spec(&mut rng, &mut ctr) };
            plan.step(t, Action::Send { sock: rng.below(sockets as u64) as u32, req: spec });
        }
        ctr += 1;
        // variants come from sockets 1000.. so that they can be told apart from the context traffic
        plan.step(t, Action::Send { sock: 1000 + j as u32, req: variant(k, ctr) });
        plan.params.insert(format!("v{}", j), k as i64);
        t += *rng.pick(&[0u64, 0, 2, 40, 900]);
    }
    settle(&mut plan, 400);
    plan
}

fn check(plan: &Plan, out: &RunOut) -> CheckOut {
    let mut co = CheckOut::default();
    let v = View::build(out);
    co.nontrivial = !v.recvs.is_empty();
    check_no_panic(&mut co, "C12", out);
    let mut judged = 0u64;
    let variant_socks: BTreeMap<std::net::SocketAddr, u32> = (0..PER_RUN as u32).map(|j| (crate::reqs::client_addr(1000 + j), j)).collect();
    for q in &v.recvs {
        let Some(&j) = variant_socks.get(&q.src) else { continue };
        let k = plan.p(&format!("v{}", j));
        judged += 1;
        let n_ok = q.answers.iter().filter(|&&s| matches!(v.sends[s].verdict, Some(Ok(_)))).count();
        let n = q.answers.len();
        let describe = || format!("variant {} ({:?})", k, variant(k as u64, 0));
        match &q.class {
            Ok(info) => match &info.must {
                r::Must::Answer => {
                    co.probe("expected_reply");
                    if n != 1 || n_ok != 1 {
                        co.violate("C12", "version_matrix_mismatch", "C12|version_matrix_mismatch|expected=reply".into(), format!("{}: must be answered once with a verifying draft-13 response, got {} response(s), {} verifying", describe(), n, n_ok));
                    }
                }
                r::Must::Either(_) => {
                    co.probe("either_allowed");
                    if n > 1 || n_ok != n {
                        co.violate("C12", "version_matrix_mismatch", "C12|version_matrix_mismatch|expected=either".into(), format!("{}: {} response(s), {} verifying", describe(), n, n_ok));
                    }
                }
                r::Must::Silent(_) => {}
            },
            Err(why) => {
                co.probe("expected_silence");
                if n > 0 {
                    co.violate("C12", "version_matrix_mismatch", format!("C12|version_matrix_mismatch|expected=silence|{}", why), format!("{}: must not be answered ({}), got {} response(s)", describe(), why, n));
                }
            }
        }
    }
    // every response to anything states draft-13 inside the signed part (checked by the strict
    // verifier: SREP.VER = draft-13, SREP.VERS contains it) — count them
    let ietf_ok = v.sends.iter().filter(|s| matches!(&s.verdict, Some(Ok(x)) if !x.vers.is_empty())).count();
    co.count("variants_judged", judged);
    co.count("ietf_responses_with_signed_version", ietf_ok as u64);
    let expected = (0..PER_RUN).filter(|j| plan.params.contains_key(&format!("v{}", j))).count() as u64;
    if judged < expected && out.world.fault_fired.get("rcv_overflow").copied().unwrap_or(0) == 0 {
        co.violate("C12", "harness", "C12|variants_not_received".into(), format!("only {} of {} variants reached a worker", judged, expected));
    }
    co.sample = Some(serde_json::json!({
        "scenario": plan.scenario, "seed": plan.seed, "slice": plan.p("slice"), "variants_in_run": expected, "variants_judged": judged,
        "first_variant": format!("{:?}", variant(plan.p("v0") as u64, 0)),
        "responses": v.sends.len(),
        "verdict": if co.violations.is_empty() { "ok".to_string() } else { co.violations[0].signature.clone() },
    }));
    co
}

pub fn property() -> Property {
    Property {
        id: "C12",
        level: "exploration",
        budget,
        gen,
        check,
        finalize: no_finalize,
        rule: "the request matrix (every VER list of length 0..=6 over {draft-13, classic 0, three unknown numbers} = 19531 lists x SRV absent/correct/other server, plus SRV under all 256 single-bit corruptions, 5 wrong lengths, another server's value, and VER absent: 58856 variants) is enumerated completely once per quick run in slices of 60 per simulated execution, each variant embedded among seeded unrelated traffic and batches on 1-2 real workers; thorough repeats the matrix in 200 traffic contexts; non-trivial = workers received datagrams; distinct = distinct schedule fingerprints (the matrix itself is exhaustive, the traffic contexts are sampled)",
        assumptions: &["a request naming draft-13 only beyond the fourth VER entry may or may not be answered (the statement allows either)", "absence of a reply is decided at the end of the run, 400 simulated ms after the last arrival with all worker queues empty"],
        real: REAL_W,
        stub: STUB,
    }
}
