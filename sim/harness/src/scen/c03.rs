//! C03 — the project's own client accepts every honest response and prints its midpoint.

use super::clientside::*;
use super::common::*;
use super::*;
use refimpl as r;

fn budget(t: Tier) -> u64 {
    match t {
        Tier::Quick => 8_000,
        Tier::Thorough => 900_000,
    }
}

pub const Y9999: u64 = 253_402_300_799;

pub fn pick_midp_secs(rng: &mut Rng) -> u64 {
    match rng.below(8) {
        // the second before, at and after a daylight-saving change of one of the zones with rules
        7 => {
            let z = r::time::ZONES[7 + rng.below(3) as usize];
            let (a, b) = z.changes(*rng.pick(&[1999i64, 2026, 2026, 2038, 2400, 9998])).unwrap();
            ((if rng.chance(1, 2) { a } else { b }) + rng.below(3) as i64 - 1) as u64
        }
        0 => rng.below(3),
        1 => 2_147_483_646 + rng.below(4),
        2 => 4_294_967_294 + rng.below(4),
        3 => Y9999 - rng.below(3),
        4 => 1_700_000_000 + rng.below(50_000_000),
        _ => rng.below(Y9999),
    }
}

/// The public key as an operator may write it after -k: hexadecimal in lower, upper or mixed case
/// (the client's hex decoder is case-permissive), or standard base64.
pub fn key_text(rng: &mut Rng, k: &[u8]) -> String {
    match rng.below(6) {
        0 | 1 => r::hex_lower(k),
        2 => r::hex_lower(k).to_uppercase(),
        3 => r::hex_lower(k).chars().map(|c| if rng.chance(1, 2) { c.to_ascii_uppercase() } else { c }).collect(),
        _ => r::base64(k, false, true),
    }
}

pub fn client_args(rng: &mut Rng, port: u16, proto: P, key: Option<&[u8]>, n: u32, timeout: u32) -> Vec<String> {
    let mut a = vec!["127.0.0.1".to_string(), port.to_string(), "-p".into(), if proto == P::Ietf { "13".into() } else { "0".into() }, "-n".into(), n.to_string(), "-t".into(), timeout.to_string()];
    if let Some(k) = key {
        a.push("-k".into());
        a.push(key_text(rng, k));
    }
    // -z alone, -f alone, and both together (the UTC and the local branch each format the time)
    // ... and neither: the local time in the default format
    let shape = rng.below(5);
    if shape != 1 && shape != 4 {
        a.push("-z".into());
    }
    if shape != 0 && shape != 4 {
        a.push("-f".into());
        a.push((*rng.pick(&["%Y-%m-%d %H:%M:%S.%f", "%Y-%m-%d %H:%M:%S.%f", "%s.%6f", "%H:%M:%S%.3f %d %b %Y", "%s %9f", "%Y%m%d %H%M%S%.6f", "%s%.9f|%3f"])).to_string());
    }
    match rng.below(3) {
        0 => a.push("-j".into()),
        1 => a.push("-v".into()),
        _ => {}
    }
    if rng.chance(1, 6) {
        // a text dump of both messages on stderr: commentary only
        a.push("-d".into());
    }
    a
}

/// every (path depth 0..=6, index below 2^depth) x protocol x key option: 127 x 2 x 4
pub const POSITIONS: u64 = 127 * 2 * 4;

fn gen_position(seed: u64, k: u64) -> Plan {
    let mut rng = Rng::derive(seed, "c03-pos");
    let mut plan = Plan::new("C03", "c03.every_batch_position", seed);
    world_knobs(&mut rng, &mut plan, false);
    pick_zone(&mut rng, &mut plan);
    let key_opt = k % 4;
    let proto = if (k / 4) % 2 == 0 { P::Classic } else { P::Ietf };
    let mut pos = k / 8; // 0..127
    let mut depth = 0u32;
    while pos >= (1u64 << depth) {
        pos -= 1u64 << depth;
        depth += 1;
    }
    plan.params.insert("depth".into(), depth as i64);
    plan.params.insert("index".into(), pos as i64);
    let port = 4000 + rng.below(1000) as u16;
    let slot = SlotSpec { index: pos as u32, depth, midp_secs: pick_midp_secs(&mut rng), midp_sub_us: rng.below(1_000_000) as u32, forgeries: vec![], sibling_seed: rng.next_u64(), delay_us: 0, window: (rng.below(5)) as u8, no_nonc: rng.chance(1, 4) };
    let spec = RefServerSpec { port, long_seed: rng.next_u64(), online_seed: rng.next_u64(), slots: vec![slot] };
    let pk = {
        let mut s = [0u8; 32];
        Rng::derive(spec.long_seed, "ref-long").fill(&mut s);
        r::pubkey_from_seed(&s)
    };
    plan.step(0, Action::StartRefServer(spec));
    // key option: none / hex / base64 (client_args picks the encoding at random: force it here)
    let mut args = client_args(&mut rng, port, proto, None, 1, 3);
    if key_opt > 0 {
        args.push("-k".into());
        args.push(match key_opt {
            1 => r::hex_lower(&pk),
            2 => r::base64(&pk, false, true),
            _ => r::hex_lower(&pk).to_uppercase(),
        });
    }
    plan.step(1000, Action::RunClient { argv: args });
    plan.world.horizon_ms = 4_000;
    plan
}

fn gen(seed: u64, idx: u64, _tier: Tier) -> Plan {
    if idx < POSITIONS {
        return gen_position(seed, idx);
    }
    let mut rng = Rng::derive(seed, "c03");
    let real = idx % 3 == 2;
    let mut plan = Plan::new("C03", if real { "c03.real_server" } else { "c03.reference_server" }, seed);
    world_knobs(&mut rng, &mut plan, false);
    pick_zone(&mut rng, &mut plan);
    plan.world.rcv_cap = 4096;
    let proto = if rng.chance(1, 2) { P::Ietf } else { P::Classic };
    let n = 1 + rng.below(8) as u32;
    let with_key = rng.below(3) != 0;
    if real {
        let mut s = ServerSpec::basic(Mode::W, &random_seed_hex(&mut rng));
        s.workers = *rng.pick(&[1i64, 1, 2, 4]);
        s.batch_size = *rng.pick(&[1i64, 2, 8, 64, 64]);
        s.log_level = Some(0);
        // the statement covers midpoints through year 9999: keep the whole run (4 simulated s)
        // on this side of 10000-01-01
        plan.world.wall_secs = pick_midp_secs(&mut rng).min(Y9999 - 10);
        plan.world.wall_nanos = rng.below(1_000_000_000) as u32;
        let pk = r::pubkey_from_seed(&crate::exec::hex_decode(&s.seed_hex).unwrap());
        plan.server = Some(s);
        // competing clients so that the real client's requests land anywhere in a batch
        let others = rng.below(64);
        let mut ctr = seed ^ 0xc03;
        let t0 = 5_000u64;
        // slow service so that requests queue up and share batches
        plan.world.cost_scale = *rng.pick(&[1000u64, 10_000, 20_000]);
        plan.world.latency_jitter_us = *rng.pick(&[0u64, 20]);
        for _ in 0..others {
            // (one competing request in sixteen comes from source port 0: it can be batched but not answered)
            let sock = if rng.chance(1, 16) { 40_000 + rng.below(4) as u32 } else { rng.below(64) as u32 };
            plan.step(t0 + rng.below(40), Action::Send { sock, req: valid_spec(&mut rng, &mut ctr) });
        }
        let args = client_args(&mut rng, 2002, proto, if with_key { Some(&pk) } else { None }, n, 3);
        plan.step(t0, Action::RunClient { argv: args });
        plan.world.horizon_ms = 4_000;
    } else {
        let port = 4000 + rng.below(1000) as u16;
        let mut slots = Vec::new();
        for _ in 0..n {
            let depth = rng.below(7) as u32;
            let sub_any = rng.below(1_000_000) as u32;
            slots.push(SlotSpec { index: rng.below(64) as u32, depth, midp_secs: pick_midp_secs(&mut rng), midp_sub_us: *rng.pick(&[0u32, 1, 999, 1000, 999_999, sub_any]), forgeries: vec![], sibling_seed: rng.next_u64(), delay_us: rng.below(2000), window: *rng.pick(&[0u8, 0, 1, 2, 3, 4]), no_nonc: rng.chance(1, 4) });
        }
        let spec = RefServerSpec { port, long_seed: rng.next_u64(), online_seed: rng.next_u64(), slots };
        let pk = {
            let mut s = [0u8; 32];
            Rng::derive(spec.long_seed, "ref-long").fill(&mut s);
            r::pubkey_from_seed(&s)
        };
        plan.step(0, Action::StartRefServer(spec));
        let args = client_args(&mut rng, port, proto, if with_key { Some(&pk) } else { None }, n, 3);
        plan.step(1000, Action::RunClient { argv: args });
        plan.world.horizon_ms = 4_000;
    }
    plan
}

/// One run in two: the machine is in one of the reference formatter's time zones (fixed offsets
/// and three with daylight-saving rules), given as a POSIX TZ string.
pub fn pick_zone(rng: &mut Rng, plan: &mut Plan) {
    if rng.chance(1, 2) {
        plan.world.tz = Some(r::time::ZONES[rng.below(r::time::ZONES.len() as u64) as usize].tz.to_string());
    }
}

fn expected_line(argv: &[String], proto: r::Proto, midp: u64, tz: Option<&str>) -> String {
    let (secs, nanos) = match proto {
        r::Proto::Classic => (midp / 1_000_000, ((midp % 1_000_000) * 1000) as u32),
        r::Proto::Ietf => (midp, 0),
    };
    let fmt = arg_value(argv, "-f").unwrap_or("%b %d %Y %H:%M:%S %Z");
    if has_flag(argv, "-z") {
        return r::time::format_utc(secs, nanos, fmt);
    }
    // the local clock: the same instant at the offset in force at that instant; chrono prints a
    // local %Z as +hh:mm
    let off = r::time::Zone::by_tz(tz).offset_at(secs as i64);
    let zone = format!("{}{:02}:{:02}", if off < 0 { '-' } else { '+' }, off.abs() / 3600, off.abs() % 3600 / 60);
    r::time::format_at(secs, nanos, fmt, off, &zone)
}

fn check(plan: &Plan, out: &RunOut) -> CheckOut {
    let mut co = CheckOut::default();
    let runs = client_runs(out);
    let which = if plan.scenario == "c03.real_server" { "real_server" } else { "reference_server" };
    for cr in &runs {
        let proto = proto_of(&cr.argv);
        let n: usize = arg_value(&cr.argv, "-n").and_then(|s| s.parse().ok()).unwrap_or(1);
        let key_given = has_flag(&cr.argv, "-k");
        co.nontrivial = co.nontrivial || !cr.received.is_empty();
        let sigbase = format!("C03|{{}}|proto={}|peer={}", proto.name(), which);
        if cr.exit != Some(0) {
            let why = cr.panics.first().cloned().unwrap_or_else(|| format!("exit {:?} ({})", cr.exit, cr.exit_how));
            co.violate("C03", "client_rejected_honest", sigbase.replace("{}", "client_rejected_honest"), format!("client {:?} ended with status {:?} after {} of {} responses: {}", cr.argv, cr.exit, cr.received.len(), n, crate::view::short_site(&why)));
            continue;
        }
        if cr.timed_out || cr.received.len() < n {
            co.violate("C03", "client_timeout", sigbase.replace("{}", "no_response_in_time"), format!("client received {} of {} responses before its timeout", cr.received.len(), n));
            continue;
        }
        let lines = time_lines(&cr.stdout);
        if lines.len() != n {
            co.violate("C03", "client_wrong_time", sigbase.replace("{}", "wrong_line_count"), format!("{} time lines for {} requests: {:?}", lines.len(), n, lines));
            continue;
        }
        for (i, line) in lines.iter().enumerate() {
            let midp = match midp_of(proto, &cr.received[i]) {
                Some(m) => m,
                None => continue,
            };
            let want = expected_line(&cr.argv, proto, midp, plan.world.tz.as_deref());
            let (shown, verified_shown): (String, Option<bool>) = if has_flag(&cr.argv, "-j") {
                // { "midpoint": "<text>", "radius": 5, "verified": true, "merkle_index": 0 }
                let v: Option<serde_json::Value> = serde_json::from_str(line).ok();
                match v {
                    Some(v) => (v["midpoint"].as_str().unwrap_or("").to_string(), v["verified"].as_bool()),
                    None => (line.clone(), None),
                }
            } else {
                (line.clone(), None)
            };
            if shown != want {
                co.violate("C03", "client_wrong_time", sigbase.replace("{}", "client_wrong_time"), format!("response {} carries MIDP {}: expected the client to print {:?}, it printed {:?}", i, midp, want, shown));
            }
            if let Some(v) = verified_shown {
                if v != key_given {
                    co.violate("C03", "client_wrong_verified_flag", sigbase.replace("{}", "wrong_verified_flag"), format!("\"verified\": {} although a key was {}given", v, if key_given { "" } else { "not " }));
                }
            }
        }
        if has_flag(&cr.argv, "-v") {
            let yes = cr.stderr.matches("verified=Yes").count();
            let no = cr.stderr.matches("verified=No").count();
            if (key_given && (yes != n || no != 0)) || (!key_given && (no != n || yes != 0)) {
                co.violate("C03", "client_wrong_verified_flag", sigbase.replace("{}", "wrong_verified_flag"), format!("verbose output reports verified=Yes {} times and verified=No {} times for {} requests, key given: {}", yes, no, n, key_given));
            }
        }
        if key_given {
            co.probe("with_pinned_key");
        }
        // where did the requests land?
        for d in &cr.received {
            let payload = if proto == r::Proto::Ietf && d.len() > 12 { &d[12..] } else { &d[..] };
            if let Ok((m, _)) = r::decode(payload) {
                let depth = m.get(r::PATH).map(|p| p.len() / proto.hash_len()).unwrap_or(0);
                if depth >= 1 {
                    co.probe("reply_from_batch_ge_2");
                }
                if depth >= 6 {
                    co.probe("path_depth_6");
                }
                if plan.scenario == "c03.every_batch_position" {
                    co.probe(&format!("position_depth_{}", depth));
                }
                if m.get(r::INDX).map(|i| i != [0, 0, 0, 0]).unwrap_or(false) {
                    co.probe("nonzero_index");
                }
            }
        }
    }
    if runs.is_empty() {
        co.violate("C03", "harness", "C03|client_never_ran".into(), "no client process was started".into());
    }
    co.count("client_runs", runs.len() as u64);
    co.count("responses_delivered", runs.iter().map(|c| c.received.len() as u64).sum());
    co.sample = Some(serde_json::json!({
        "scenario": plan.scenario, "seed": plan.seed,
        "client_argv": runs.first().map(|c| c.argv.clone()),
        "stdout": runs.first().map(|c| c.stdout.clone()),
        "exit": runs.first().map(|c| c.exit),
        "verdict": if co.violations.is_empty() { "ok".to_string() } else { co.violations[0].signature.clone() },
    }));
    co
}

pub fn property() -> Property {
    Property {
        id: "C03",
        level: "exploration",
        budget,
        gen,
        check,
        finalize: no_finalize,
        rule: "every batch position (path depth 0..=6 x every index below 2^depth = 127 positions) x protocol x key option none / lower-case hex / base64 / upper-case hex = 1016 cases is enumerated completely against the reference responder; the remaining evaluations sample: one evaluation = one simulated execution of the real client main() (seeded -p 0|13, -k none|hex in lower, upper or mixed case|base64, -n 1..8, -z / -f with one of seven format strings / both / neither, -j/-v, the machine in UTC or one of six fixed-offset time zones, classic responses with or without the top-level NONC) against (a) an honest reference responder that signs a chosen midpoint (epoch..year 9999) and places each request at a chosen index 0..63 of a batch of depth 0..6, or (b) 1-4 real Server workers under a swept wall clock with up to 64 competing requests so that batches form; non-trivial = the client received at least one response; distinct = distinct schedule fingerprints",
        assumptions: &["TZ is pinned to UTC; runs without -z use a format without %Z", "independent civil-time formatter (refimpl::time) is the output oracle"],
        real: REAL_C,
        stub: STUB,
    }
}
