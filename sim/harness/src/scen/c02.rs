//! C02 — every server response verifies under the independent verifier; grease share test.

use super::common::*;
use super::*;
use crate::view::View;

fn budget(t: Tier) -> u64 {
    match t {
        Tier::Quick => 3_000,
        Tier::Thorough => 180_000,
    }
}

pub const GREASE_P_QUICK: [i64; 3] = [1, 10, 50];

fn gen(seed: u64, idx: u64, tier: Tier) -> Plan {
    let mut rng = Rng::derive(seed, "c02");
    // profiles: 0..5 fault-free batches, 6..7 network/schedule faults, 8..9 grease
    let profile = idx % 10;
    let scenario = match profile {
        0..=5 => "c02.batches",
        6 | 7 => "c02.batches_faulty_net",
        _ => "c02.grease",
    };
    let mut plan = Plan::new("C02", scenario, seed);
    let mut s = ServerSpec::basic(Mode::W, &seed_hex(&mut rng));
    s.workers = *rng.pick(&[1i64, 1, 2, 3, 4]);
    s.batch_size = match rng.below(4) {
        0 => 1 + rng.below(4) as i64,
        1 => 64,
        _ => 1 + rng.below(64) as i64,
    };
    s.log_level = Some(*rng.pick(&[0u8, 0, 3, 4]));
    // every eighth fault-free run boots the repository's own main() under a seeded combination of
    // the settings that shape the process around the workers
    let full = idx % 80 == 4 || idx % 80 == 45;
    if full {
        process_settings(&mut rng, &mut s);
        s.log_level = None;
    }
    world_knobs(&mut rng, &mut plan, profile == 6 || profile == 7);
    if profile == 7 {
        plan.world.faults.recv_err = 30;
        plan.world.faults.send_err = 30;
    }
    let wl = if scenario == "c02.grease" {
        s.fault_pct = match tier {
            Tier::Quick => *rng.pick(&GREASE_P_QUICK),
            Tier::Thorough => 1 + rng.below(50) as i64,
        };
        s.workers = 1;
        Workload { sockets: 1 + rng.below(32) as u32, bursts: 6, max_burst: 100, ietf_permille: 500, with_srv_permille: 300, start_us: 6000 }
    } else {
        Workload {
            sockets: 1 + rng.below(96) as u32,
            bursts: 2 + rng.below(7) as u32,
            max_burst: if rng.chance(1, 3) { 200 } else { 2 * s.batch_size as u32 + 2 },
            ietf_permille: *rng.pick(&[0u32, 300, 500, 700, 1000]),
            with_srv_permille: 300,
            start_us: if full { 25_000 } else { 6000 },
        }
    };
    plan.params.insert("grease_p".into(), s.fault_pct);
    plan.server = Some(s);
    let end = valid_bursts(&mut rng, &mut plan, &wl);
    if scenario != "c02.grease" && rng.chance(1, 3) {
        let rounds = 1 + rng.below(3) as u32;
        retransmissions(&mut rng, &mut plan, rounds, wl.sockets, end + 2_000);
    }
    settle(&mut plan, 400);
    plan
}

fn check(plan: &Plan, out: &RunOut) -> CheckOut {
    let mut co = CheckOut::default();
    let v = View::build(out);
    let spec = plan.server.as_ref().unwrap();
    co.nontrivial = !v.sends.is_empty();
    monitor_leak(&mut co, out);
    check_no_panic(&mut co, "C02", out);
    if spec.fault_pct == 0 {
        check_validity(&mut co, "C02", &v);
        check_batch_shape(&mut co, "C02", &v);
        // reach statistics
        for b in &v.batches {
            let n = b.sends.len();
            if n >= 2 {
                co.probe("batch_ge_2");
            }
            if n as i64 == spec.batch_size {
                co.probe("batch_filled_exactly");
            }
            if n == 64 {
                co.probe("batch_64");
            }
            if n >= 2 && n % 2 == 1 {
                co.probe("odd_batch");
            }
        }
        let mut per_task: std::collections::BTreeMap<usize, Vec<usize>> = Default::default();
        for b in &v.batches {
            per_task.entry(b.task).or_default().push(b.sends.len());
        }
        if per_task.values().any(|v| v.windows(2).any(|w| w[1] < w[0] && w[1] > 0)) {
            co.probe("smaller_batch_after_larger");
        }
        co.count("replies_checked", v.sends.len() as u64);
    } else {
        let p = spec.fault_pct;
        let total = v.sends.len() as u64;
        let fail = v.sends.iter().filter(|s| !matches!(s.verdict, Some(Ok(_)))).count() as u64;
        co.count(&format!("grease_p{}_total", p), total);
        co.count(&format!("grease_p{}_fail", p), fail);
        if fail > 0 {
            co.probe("grease_fired");
        }
        // the deliberate errors are drawn per response: in a batch of 24 or more all replies fail
        // with probability p^24 (below 6e-8 at p = 50 %), so one such batch means the draw is shared
        for b in &v.batches {
            if b.sends.len() >= 24 {
                co.probe("grease_big_batch");
                if b.sends.iter().all(|&i| !matches!(v.sends[i].verdict, Some(Ok(_)))) {
                    co.violate("C02", "grease_not_per_response", "C02|grease_not_per_response".into(), format!("fault_percentage {}: all {} replies of one batch fail verification", p, b.sends.len()));
                }
            }
        }
    }
    co.sample = Some(serde_json::json!({
        "scenario": plan.scenario, "seed": plan.seed, "workers": spec.workers, "batch_size": spec.batch_size,
        "fault_percentage": spec.fault_pct, "requests_received": v.recvs.len(), "responses": v.sends.len(),
        "batches": v.batches.iter().map(|b| b.sends.len()).filter(|n| *n > 0).collect::<Vec<_>>(),
        "verdict": if co.violations.is_empty() { "ok".to_string() } else { co.violations[0].signature.clone() },
    }));
    co
}

fn finalize(c: &BTreeMap<String, u64>, _tier: Tier) -> Vec<Violation> {
    let mut out = Vec::new();
    for p in 1..=50u64 {
        let total = c.get(&format!("grease_p{}_total", p)).copied().unwrap_or(0);
        let fail = c.get(&format!("grease_p{}_fail", p)).copied().unwrap_or(0);
        if total < 2000 {
            continue;
        }
        let q = p as f64 / 100.0;
        let mean = total as f64 * q;
        let sigma = (total as f64 * q * (1.0 - q)).sqrt();
        if (fail as f64 - mean).abs() > 6.0 * sigma {
            out.push(Violation {
                property: "C02".into(),
                class: "grease_share_out_of_range".into(),
                signature: format!("C02|grease_share_out_of_range|p={}", p),
                detail: format!("fault_percentage {}: {} of {} replies failed verification; expected {:.1} +- {:.1} (6 sigma)", p, fail, total, mean, 6.0 * sigma),
            });
        }
    }
    out
}

pub fn property() -> Property {
    Property {
        id: "C02",
        level: "exploration",
        budget,
        gen,
        check,
        finalize,
        rule: "one evaluation = one simulated execution of 1-4 real Server workers on one port fed 2-8 seeded bursts of valid classic/IETF requests (W mode); non-trivial = at least one response was sent by a server socket; distinct = distinct schedule fingerprints (hash of the sequence of (task, seam operation, result class)) among non-trivial runs",
        assumptions: &["reference implementation (sha2 + ring Ed25519) is the trusted oracle", "kernel/mio stand-ins model Linux edge-triggered readiness (see DESIGN 3.2)", "service-time model: seeded per-operation costs, scaled 0.1x-20x per run"],
        real: REAL_W,
        stub: STUB,
    }
}
