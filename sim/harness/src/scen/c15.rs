//! C15 — every documented in-range configuration yields a fully serving server (mode F).

use super::common::*;
use super::fmode::*;
use super::*;
use crate::view::{self, View};
use refimpl as r;

pub const HTTP_RESPONSE: &str = "HTTP/1.1 200 OK\nContent-Length: 0\nConnection: close\n\n";

fn budget(t: Tier) -> u64 {
    match t {
        Tier::Quick => 1_360,
        Tier::Thorough => 95_200,
    }
}

fn gen(seed: u64, idx: u64, _tier: Tier) -> Plan {
    let mut rng = Rng::derive(seed, "c15");
    let example = idx % 17 == 16;
    let mut plan = Plan::new("C15", if example { "c15.example_cfg" } else { "c15.option_space" }, seed);
    let mut s = ServerSpec::basic(Mode::F, &random_seed_hex(&mut rng));
    world_knobs(&mut rng, &mut plan, (idx / 16) % 3 == 1);
    // start-up under stalled tasks, spurious polls and late timers; the path itself stays loss-free
    // so that the request and health oracles remain exact
    {
        let f = &mut plan.world.faults;
        f.c2s_drop = 0;
        f.s2c_drop = 0;
        f.c2s_dup = 0;
        f.s2c_dup = 0;
        f.c2s_phantom = 0;
        f.c2s_truncate = 0;
    }
    // every worker is certain to receive traffic
    plan.world.round_robin = true;
    plan.world.rcv_cap = 4096;
    s.source = if rng.chance(1, 2) { ConfigSource::File } else { ConfigSource::Env };
    file_layout(&mut rng, &mut s);
    // workers: every value 1..=16 is covered by idx; half explicit, half defaulted through the
    // simulated core count
    let workers = 1 + (idx % 16) as i64;
    s.workers = workers;
    s.workers_written = rng.chance(1, 2);
    plan.world.cores = if s.workers_written { 1 + rng.below(16) as usize } else { workers as usize };
    s.health_port = if rng.chance(1, 2) { Some(8000 + rng.below(100) as i64) } else { None };
    s.batch_size = *rng.pick(&[1i64, 2, 63, 64]);
    s.batch_written = rng.chance(3, 4);
    if !s.batch_written {
        s.batch_size = 64;
    }
    s.fault_pct = *rng.pick(&[0i64, 0, 1, 50]);
    s.fault_written = s.fault_pct > 0 || rng.chance(1, 2);
    s.status_interval = Some(*rng.pick(&[1i64, 10, 600]));
    if rng.chance(1, 3) {
        s.client_stats = Some((*rng.pick(&["on", "yes"])).to_string());
        s.persist_dir = Some("/tmp".into());
    } else if rng.chance(1, 4) {
        s.client_stats = Some("off".into());
    }
    if example {
        let text = std::fs::read_to_string("/repo/example.cfg").expect("read /repo/example.cfg");
        // parse what the file says so that the harness aims its traffic correctly
        let get = |k: &str| text.lines().find_map(|l| l.strip_prefix(&format!("{}:", k)).map(|v| v.trim().to_string()));
        s = ServerSpec::basic(Mode::F, &get("seed").unwrap_or_default());
        s.source = ConfigSource::File;
        s.interface = get("interface").unwrap_or_else(|| "127.0.0.1".into());
        s.port = get("port").and_then(|v| v.parse().ok()).unwrap_or(8686);
        s.health_port = get("health_check_port").and_then(|v| v.parse().ok());
        s.workers_written = false;
        s.workers = 1 + rng.below(16) as i64;
        plan.world.cores = s.workers as usize;
        s.raw_text = Some(text);
    }
    // environment fault (a quarter of the non-example runs): another program already holds the
    // health port or the UDP port. The server cannot serve then; what the statement still demands
    // is that it does not keep running with fewer live workers than configured.
    if !example && (idx / 16) % 4 == 2 {
        plan.scenario = "c15.port_held_by_another_program".into();
        if s.health_port.is_some() && rng.chance(2, 3) {
            plan.step(0, Action::ForeignTcpListen { port: s.health_port.unwrap() as u16 });
        } else {
            plan.step(0, Action::ForeignUdpBind { port: s.port as u16 });
        }
    }
    let workers = s.workers;
    let health = s.health_port.is_some();
    plan.server = Some(s);
    // traffic: several rounds of workers*4 requests (round robin reaches every worker)
    let mut ctr = seed ^ 0xc15;
    // in the fault profile start-up may take long (stalled tasks): traffic begins after the
    // fault window, which covers start-up only
    let faulty_boot = (idx / 16) % 3 == 1;
    let mut t = if faulty_boot { 600_000u64 } else { 30_000u64 };
    if health && rng.chance(1, 2) {
        // two connects before the workers can possibly poll
        let t0 = *rng.pick(&[1u64, 30, 100, 400]);
        plan.step(t0, Action::Health { id: 900, reset: false });
        plan.step(t0 + 1, Action::Health { id: 901, reset: false });
    }
    let mut hid = 0;
    let batch = plan.server.as_ref().unwrap().batch_size.max(1) as u64;
    for _round in 0..3 {
        for k in 0..(workers as u64 * 4) {
            plan.step(t + k * *rng.pick(&[0u64, 1, 7]), Action::Send { sock: rng.below(64) as u32, req: valid_spec(&mut rng, &mut ctr) });
            if rng.chance(1, 8) {
                // what else arrives on a public port: something that is no request
                plan.step(t + k, Action::Send { sock: rng.below(64) as u32, req: storm_spec(&mut rng, &mut ctr) });
            }
        }
        if rng.chance(1, 4) {
            // every worker finds a completely full batch (or one more than that) waiting: the
            // requests leave at the same instant
            for _ in 0..(workers as u64 * batch + rng.below(2)) {
                plan.step(t + 9_000, Action::Send { sock: rng.below(64) as u32, req: valid_spec(&mut rng, &mut ctr) });
            }
        }
        if health {
            let n = 1 + rng.below(4);
            let gap = *rng.pick(&[0u64, 0, 1, 50, 5_000]);
            // one group in three has a connection the client resets at once (the server's write
            // fails); whoever is queued behind it on the same listener must still be answered
            let reset_at = if rng.chance(1, 3) { Some(rng.below(n)) } else { None };
            let t_group = t + rng.below(200);
            for j in 0..n {
                plan.step(if reset_at.is_some() { t_group + j * gap.min(1) } else { t + rng.below(200) + j * gap }, Action::Health { id: hid, reset: reset_at == Some(j) });
                hid += 1;
            }
        }
        t += *rng.pick(&[20_000u64, 150_000, 400_000]);
    }
    sentinels(&mut plan, 2, t);
    wall_steps(&mut rng, &mut plan);
    settle(&mut plan, 1400);
    if faulty_boot {
        plan.world.faults_until_ms = 400;
    }
    plan
}

fn check(plan: &Plan, out: &RunOut) -> CheckOut {
    let mut co = CheckOut::default();
    let spec = plan.server.as_ref().unwrap();
    let v = View::build(out);
    let bs = boots(out);
    let b = match bs.first() {
        Some(b) => b,
        None => {
            co.violate("C15", "harness", "C15|server_never_started".into(), "no server process".into());
            return co;
        }
    };
    let w = &out.world;
    co.nontrivial = !b.worker_tasks.is_empty();
    monitor_leak(&mut co, out);
    let configured = spec.workers as usize;
    let health = if spec.health_port.is_some() { "set" } else { "none" };
    let wclass = if configured > 1 { ">1" } else { "1" };
    if plan.scenario == "c15.port_held_by_another_program" {
        // the only demand: no lingering with fewer live workers than configured (2 simulated s
        // after start-up at the latest); exiting is the correct outcome
        co.probe("port_held_by_another_program");
        if b.exit.is_none() && b.live_workers < configured && w.now >= 2 * dsim::SEC {
            co.violate("C15", "fewer_workers_than_configured", format!("C15|lingering_after_failed_startup|workers{}", wclass), format!("a port was held by another program; the server keeps running with {} live workers of {} configured (panics: {:?})", b.live_workers, configured, b.panics.iter().map(|p| crate::view::short_site(&p.1)).collect::<Vec<_>>()));
        }
        if b.exit.is_some() {
            co.probe("failed_startup_exited");
        }
        co.sample = Some(serde_json::json!({"scenario": plan.scenario, "seed": plan.seed, "workers": configured, "exit": b.exit, "live_workers": b.live_workers, "panics": b.panics.len(), "verdict": if co.violations.is_empty() { "ok".to_string() } else { co.violations[0].signature.clone() }}));
        return co;
    }
    // start-up outcome
    for (name, msg, loc) in &b.panics {
        co.violate(
            "C15",
            "worker_died_at_boot",
            format!("C15|task_panicked_at_boot|health={}|workers{}|{}", health, wclass, view::short_site(msg)),
            format!("{} workers configured, health_check_port {:?}: task {} panicked at {}: {}", configured, spec.health_port, name, loc, msg),
        );
    }
    if let Some(code) = b.exit {
        co.violate("C15", "server_exited", format!("C15|server_exited|health={}|workers{}|code={}", health, wclass, code), format!("in-range configuration, but the server process ended with status {} ({})", code, b.exit_how));
    } else {
        if b.worker_tasks.len() != configured {
            co.violate("C15", "fewer_workers_than_configured", format!("C15|workers_spawned_differs|health={}|workers{}", health, wclass), format!("{} worker threads spawned, {} configured", b.worker_tasks.len(), configured));
        }
        if b.live_workers < configured {
            co.violate("C15", "fewer_workers_than_configured", format!("C15|fewer_live_workers|health={}|workers{}", health, wclass), format!("the process keeps running with {} live workers of {} configured", b.live_workers, configured));
        }
        // each worker answers on the configured address. Distribution is round-robin in this
        // check, so once at least `configured` datagrams were delivered every worker has received
        // one; every worker that received valid requests must be seen answering, and each
        // (worker, protocol) pair must use exactly one delegated key of its own.
        let valid_total = v.recvs.iter().filter(|q| matches!(&q.class, Ok(i) if i.must == r::Must::Answer)).count();
        let receiving: std::collections::BTreeSet<usize> = v.recvs.iter().filter(|q| matches!(&q.class, Ok(i) if i.must == r::Must::Answer)).map(|q| q.task).collect();
        let answering: std::collections::BTreeSet<usize> = v.sends.iter().map(|s| s.task).collect();
        // (only meaningful if every worker socket was bound before the first datagram arrived)
        let last_bind = w.history.iter().filter(|r| matches!(r.ev, dsim::Ev::UdpBind { proc, .. } if proc == b.proc)).map(|r| r.seq).max().unwrap_or(0);
        let first_delivery = w.history.iter().find(|r| matches!(r.ev, dsim::Ev::Deliver { sock, .. } if w.procs[w.socks[sock].proc].sut)).map(|r| r.seq).unwrap_or(u64::MAX);
        let lost_early = w.history.iter().any(|r| matches!(r.ev, dsim::Ev::Lost { why: "no_socket", .. }));
        if last_bind > first_delivery || lost_early {
            co.probe("traffic_before_boot_complete");
        }
        if valid_total >= configured * 2 && b.panics.is_empty() && last_bind < first_delivery && !lost_early {
            let delivered_to: std::collections::BTreeSet<usize> = w.socks.iter().filter(|s| w.procs[s.proc].sut && s.delivered > 0).map(|s| s.id).collect();
            if delivered_to.len() != configured {
                co.violate("C15", "fewer_workers_than_configured", format!("C15|sockets_receiving_differs|health={}|workers{}", health, wclass), format!("{} worker sockets received traffic under round-robin distribution, {} workers configured", delivered_to.len(), configured));
            }
            if answering.len() != receiving.len() {
                co.violate("C15", "fewer_workers_than_configured", format!("C15|workers_answering_differs|health={}|workers{}", health, wclass), format!("{} workers received valid requests, {} workers sent responses", receiving.len(), answering.len()));
            }
        }
        for proto in [r::Proto::Classic, r::Proto::Ietf] {
            let mut key_of: BTreeMap<usize, std::collections::BTreeSet<Vec<u8>>> = BTreeMap::new();
            for s in v.sends.iter().filter(|s| view::response_proto(&s.data) == proto) {
                if let Some(Ok(x)) = &s.verdict {
                    key_of.entry(s.task).or_default().insert(x.online_pubk.clone());
                }
            }
            let all: std::collections::BTreeSet<&Vec<u8>> = key_of.values().flatten().collect();
            if key_of.values().any(|k| k.len() != 1) || all.len() != key_of.len() {
                co.violate("C15", "online_key_sharing", format!("C15|online_keys_not_one_per_worker|proto={}", proto.name()), format!("{} workers answered {} requests with {} distinct delegated keys", key_of.len(), proto.name(), all.len()));
            }
        }
        if spec.fault_pct == 0 {
            check_validity(&mut co, "C15", &v);
        }
        check_exactly_once(&mut co, "C15", &v, out, b.panics.is_empty());
    }
    // health check: every connection gets exactly the fixed response, then EOF, within 1 s
    if spec.health_port.is_some() && b.exit.is_none() {
        for (id, c) in &out.ctx.health_conns {
            let conn = &w.conns[*c];
            let age = w.now.saturating_sub(conn.connected_at);
            if age < dsim::SEC {
                continue; // too young to judge
            }
            let ok_bytes = conn.written == HTTP_RESPONSE.as_bytes();
            let closed_in_time = conn.shutdown_at.map(|t| t.saturating_sub(conn.connected_at) <= dsim::SEC).unwrap_or(false);
            // a connect before the server has bound the port is refused by the kernel, not by the server
            // (ordered by event sequence number, not by simulated time: both can share an instant)
            let listen_seq = w.history.iter().find_map(|r| match &r.ev { dsim::Ev::TcpListen { ok: true, .. } => Some(r.seq), _ => None });
            let connect_seq = w.history.iter().find_map(|r| match &r.ev { dsim::Ev::TcpConnect { conn: cc, .. } if cc == c => Some(r.seq), _ => None }).unwrap_or(0);
            if conn.refused && listen_seq.map(|ls| connect_seq < ls).unwrap_or(true) {
                co.probe("connect_before_listen");
                continue;
            }
            if conn.peer_reset && !conn.refused {
                // nothing can be written to a connection its client has reset
                co.probe("health_connection_reset_by_client");
                continue;
            }
            if conn.refused {
                co.violate("C15", "health_unanswered", format!("C15|health_refused|workers{}", wclass), format!("health connection {} to port {:?} was refused / aborted", id, spec.health_port));
            } else if conn.accepted_at.is_none() {
                co.violate("C15", "health_unanswered", format!("C15|health_never_accepted|workers{}", wclass), format!("health connection {} (connected at {:.6}s) was never accepted although the server kept running for {:.3}s", id, conn.connected_at as f64 / 1e9, age as f64 / 1e9));
            } else if !ok_bytes || !closed_in_time {
                co.violate("C15", "health_unanswered", format!("C15|health_bad_response|workers{}", wclass), format!("health connection {}: wrote {:?}, closed {:?}", id, String::from_utf8_lossy(&conn.written), conn.shutdown_at));
            } else {
                co.probe("health_answered");
            }
        }
        if out.ctx.health_conns.len() >= 2 {
            co.probe("health_connects_ge_2");
        }
    }
    if configured == 16 {
        co.probe("workers_16");
    }
    if plan.scenario == "c15.example_cfg" {
        co.probe("example_cfg_booted");
    }
    if b.reporter_task {
        co.probe("reporter_thread_started");
    }
    co.sample = Some(serde_json::json!({
        "scenario": plan.scenario, "seed": plan.seed, "source": format!("{:?}", spec.source), "workers": configured, "workers_written": spec.workers_written, "cores": plan.world.cores,
        "health_check_port": spec.health_port, "batch_size": spec.batch_size, "fault_percentage": spec.fault_pct, "status_interval": spec.status_interval, "client_stats": spec.client_stats,
        "worker_threads": b.worker_tasks.len(), "live_workers": b.live_workers, "exit": b.exit, "panics": b.panics.len(),
        "udp_binds": b.udp_binds.len(), "tcp_listens": b.tcp_listens.iter().map(|x| x.1).collect::<Vec<_>>(), "health_connections": out.ctx.health_conns.len(), "responses": v.sends.len(),
        "verdict": if co.violations.is_empty() { "ok".to_string() } else { co.violations[0].signature.clone() },
    }));
    co
}

pub fn property() -> Property {
    Property {
        id: "C15",
        level: "exploration",
        budget,
        gen,
        check,
        finalize: no_finalize,
        rule: "one evaluation = one boot of the real roughenough-server main() inside the simulator from a seeded configuration (num_workers 1..=16 explicit or defaulted through the simulated core count, health_check_port absent/present, batch_size {1,2,63,64}, fault_percentage {0,1,50}, status_interval {1,10,600}, client_stats off/on with a directory; file and environment sources; every 16th run reads /repo/example.cfg), then three rounds of requests distributed round-robin over the workers and TCP health connections at seeded instants (including two before any worker polls); non-trivial = worker threads were spawned; distinct = distinct schedule fingerprints",
        assumptions: &["SO_REUSEPORT distribution is round-robin in this check so that 'every worker answers' can be decided deterministically", "a health connection younger than 1 simulated second at the end of the run is not judged"],
        real: REAL_F,
        stub: STUB,
    }
}
