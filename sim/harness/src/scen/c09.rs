//! C09 — exactly one response per accepted request, to its sender, for its own nonce (W + F).

use super::common::*;
use super::*;
use crate::view::View;
use refimpl as r;

fn budget(t: Tier) -> u64 {
    match t {
        Tier::Quick => 2_800,
        Tier::Thorough => 120_000,
    }
}

/// Count-dependent behaviour: one long run of distinct valid requests through 1-2 workers — at
/// least several hundred signed batches, in a quarter of these runs more than 65536 requests —
/// so that anything that wraps, saturates or goes stale after N requests / batches shows.
fn gen_long(seed: u64, idx: u64) -> Plan {
    let mut rng = Rng::derive(seed, "c09-long");
    let mut plan = Plan::new("C09", "c09.long_run", seed);
    let mut s = ServerSpec::basic(Mode::W, &random_seed_hex(&mut rng));
    s.workers = *rng.pick(&[1i64, 1, 2]);
    // (request count, batch size, largest group) by position, so that every seed covers the same
    // ground: small and full batches, more than 65536 requests, thousands of multi-request batches
    let (count, bs, burst_max) = [(70_000u32, 64i64, 80u32), (70_000, 1, 2), (5_000, 1, 1), (20_000, 2, 5), (5_000, 3, 5), (20_000, 64, 80), (20_000, 3, 2)][((idx / 400) % 7) as usize];
    s.batch_size = bs;
    s.log_level = Some(0);
    world_knobs(&mut rng, &mut plan, false);
    plan.world.cost_scale = plan.world.cost_scale.min(1000);
    plan.world.rcv_cap = 4096;
    plan.world.step_cap = 60_000_000;
    plan.server = Some(s);
    let interval_ns = 60_000;
    plan.step(6000, Action::Stream { first_sock: 0, socks: 1 + rng.below(24) as u32, ietf_permille: *rng.pick(&[0u32, 500, 500, 1000]), interval_ns, count, nonce_base: seed ^ 0x10e6, burst_max });
    plan.params.insert("stream_count".into(), count as i64);
    plan.world.faults_until_ms = 0;
    plan.world.horizon_ms = 6 + count as u64 * interval_ns / 1_000_000 + 1100;
    plan
}

fn gen(seed: u64, idx: u64, _tier: Tier) -> Plan {
    if idx % 400 == 399 {
        return gen_long(seed, idx);
    }
    let mut rng = Rng::derive(seed, "c09");
    let profile = idx % 8;
    let (scenario, mode, faulty) = match profile {
        0..=3 => ("c09.many_clients", Mode::W, false),
        4 | 5 => ("c09.many_clients_faulty", Mode::W, true),
        _ => ("c09.full_system", Mode::F, false),
    };
    let mut plan = Plan::new("C09", scenario, seed);
    let mut s = ServerSpec::basic(mode.clone(), &random_seed_hex(&mut rng));
    s.workers = *rng.pick(&[1i64, 1, 2, 3, 4, 8, 16]);
    s.batch_size = match rng.below(3) {
        0 => 1 + rng.below(4) as i64,
        1 => 64,
        _ => 1 + rng.below(64) as i64,
    };
    if mode == Mode::F {
        process_settings(&mut rng, &mut s);
    } else {
        s.log_level = Some(*rng.pick(&[0u8, 0, 4]));
    }
    if profile == 3 {
        // deliberate response errors ("grease") change what a reply contains, not how many replies
        // there are nor where they go
        plan.scenario = "c09.many_clients_grease".into();
        s.fault_pct = *rng.pick(&[5i64, 25, 50]);
    }
    world_knobs(&mut rng, &mut plan, faulty);
    if faulty {
        plan.world.faults.send_err = *rng.pick(&[0u32, 30]);
        // a transient receive error must not lose or duplicate anything: the datagram stays queued
        plan.world.faults.recv_err = *rng.pick(&[0u32, 30]);
    }
    let bs = s.batch_size as u32;
    plan.server = Some(s);
    let sockets = 1 + rng.below(96) as u32;
    let start = if mode == Mode::F { 20_000 } else { 6000 };
    let mut t = start;
    let mut ctr = seed ^ 0xc09;
    let bursts = 2 + rng.below(6);
    for _ in 0..bursts {
        // bursts smaller than, equal to and larger than the batch size
        let n = match rng.below(if bs <= 8 { 5 } else { 4 }) {
            // more than one pass can take (16 batches), then silence: the carry-on path of the
            // event loop has to finish the rest without a new arrival to wake it
            4 => 16 * bs + 1 + rng.below(3 * bs as u64 + 2) as u32,
            0 => bs.saturating_sub(1).max(1),
            1 => bs,
            2 => bs + 1 + rng.below(bs as u64 + 3) as u32,
            _ => 1 + rng.below(3 * bs as u64 + 2) as u32,
        };
        let spacing: u64 = *rng.pick(&[0u64, 0, 1, 10]);
        let mut dup_nonce: Option<u64> = None;
        for k in 0..n {
            let sock = rng.below(sockets as u64) as u32;
            let req = match rng.below(10) {
                0 => storm_spec(&mut rng, &mut ctr),
                1 => {
                    // identical nonce from different sockets
                    let ns = *dup_nonce.get_or_insert_with(|| {
                        ctr += 1;
                        ctr
                    });
                    ReqSpec::Valid { proto: if rng.chance(1, 2) { P::Classic } else { P::Ietf }, size: 1024, nonce_seed: ns, srv: SrvMode::Absent, vers: vec![r::VER_DRAFT13] }
                }
                _ => valid_spec(&mut rng, &mut ctr),
            };
            plan.step(t + k as u64 * spacing, Action::Send { sock, req });
        }
        t += n as u64 * spacing + *rng.pick(&[300u64, 5_000, 40_000, 150_000]);
    }
    wall_steps(&mut rng, &mut plan);
    let last = plan.last_step_us();
    plan.world.faults_until_ms = last / 1000 + 1;
    plan.world.horizon_ms = last / 1000 + 1100;
    plan
}

fn check(plan: &Plan, out: &RunOut) -> CheckOut {
    let mut co = CheckOut::default();
    let v = View::build(out);
    co.nontrivial = !v.sends.is_empty();
    monitor_leak(&mut co, out);
    check_no_panic(&mut co, "C09", out);
    let spec0 = plan.server.as_ref().unwrap();
    if spec0.fault_pct == 0 {
        check_validity(&mut co, "C09", &v);
    } else {
        // greased replies fail verification by design; a reply that answers nothing is still wrong
        for s in &v.sends {
            if s.request.is_none() {
                co.violate("C09", "misrouted_response", "C09|unsolicited_send".into(), format!("datagram seq {} sent to {} which has no unanswered request at this worker", s.seq, s.dst));
            }
        }
        co.probe("grease_profile");
    }
    check_exactly_once(&mut co, "C09", &v, out, true);
    if plan.scenario == "c09.long_run" {
        co.probe("long_run");
        let answered = v.recvs.iter().filter(|q| !q.answers.is_empty()).count();
        let batches = v.batches.iter().filter(|b| !b.sends.is_empty()).count();
        let per_worker_max = {
            let mut m: BTreeMap<usize, usize> = BTreeMap::new();
            for b in v.batches.iter().filter(|b| !b.sends.is_empty()) {
                *m.entry(b.task).or_default() += 1;
            }
            m.values().copied().max().unwrap_or(0)
        };
        if per_worker_max > 256 {
            co.probe("worker_signed_more_than_256_batches");
        }
        if per_worker_max > 65_536 {
            co.probe("worker_signed_more_than_65536_batches");
        }
        if answered > 65_536 {
            co.probe("more_than_65536_requests_answered");
        }
        co.count("long_run_requests_answered", answered as u64);
        co.count("long_run_batches", batches as u64);
        // nothing may have been turned away by a full queue: the stream is paced below the service rate
        if (answered as i64) < plan.p("stream_count") {
            co.probe("long_run_not_all_answered");
        }
    }
    // client side: no client socket receives a response whose proof binds another socket's request.
    // Every delivered datagram was sent by a server socket; the send-side match (same worker,
    // destination = source of the matched request, proof verified for it) already pins this down,
    // so here it only remains to see that deliveries reached the socket they were addressed to.
    let w = &out.world;
    let mut dst_of: BTreeMap<u64, std::net::SocketAddr> = BTreeMap::new();
    for rec in &w.history {
        match &rec.ev {
            dsim::Ev::UdpSend { dst, dgram, .. } => {
                dst_of.insert(*dgram, *dst);
            }
            dsim::Ev::Deliver { dgram, sock, .. } => {
                if let (Some(d), Some(a)) = (dst_of.get(dgram), w.socks[*sock].addr) {
                    if d.port() != a.port() {
                        co.violate("C09", "misrouted_response", "C09|delivery_to_wrong_socket".into(), format!("datagram #{} addressed to {} delivered to {}", dgram, d, a));
                    }
                }
            }
            _ => {}
        }
    }
    let spec = plan.server.as_ref().unwrap();
    let workers_used: std::collections::BTreeSet<usize> = v.sends.iter().map(|s| s.task).collect();
    if workers_used.len() > 1 {
        co.probe("several_workers_answered");
    }
    if v.batches.iter().any(|b| b.sends.len() as i64 == spec.batch_size && spec.batch_size > 1) {
        co.probe("batch_filled_exactly");
    }
    // both responders non-empty in one collect cycle: an IETF batch directly followed by a classic
    // batch of the same task without a receive in between
    let mut last: BTreeMap<usize, (u64, r::Proto)> = BTreeMap::new();
    let mut recv_seqs: BTreeMap<usize, Vec<u64>> = BTreeMap::new();
    for q in &v.recvs {
        recv_seqs.entry(q.task).or_default().push(q.seq);
    }
    for l in recv_seqs.values_mut() {
        l.sort_unstable();
    }
    for b in &v.batches {
        if let Some(&s0) = b.sends.first() {
            let p = crate::view::response_proto(&v.sends[s0].data);
            if let Some((prev_seq, pp)) = last.get(&b.task) {
                let recv_between = recv_seqs.get(&b.task).map(|l| {
                    let i = l.partition_point(|&x| x <= *prev_seq);
                    i < l.len() && l[i] < b.clock_seq
                }).unwrap_or(false);
                if !recv_between && *pp != p {
                    co.probe("both_responders_in_one_cycle");
                }
            }
            last.insert(b.task, (b.clock_seq, p));
        }
    }
    co.count("requests_received", v.recvs.len() as u64);
    co.count("responses", v.sends.len() as u64);
    co.sample = Some(serde_json::json!({
        "scenario": plan.scenario, "seed": plan.seed, "workers": spec.workers, "batch_size": spec.batch_size,
        "datagrams_received": v.recvs.len(), "valid_requests": v.recvs.iter().filter(|q| q.class.is_ok()).count(), "responses": v.sends.len(),
        "workers_that_answered": workers_used.len(),
        "verdict": if co.violations.is_empty() { "ok".to_string() } else { co.violations[0].signature.clone() },
    }));
    co
}

pub fn property() -> Property {
    Property {
        id: "C09",
        level: "exploration",
        budget,
        gen,
        check,
        finalize: no_finalize,
        rule: "one evaluation = one simulated execution of 1-16 real workers (W mode: harness-spawned Server instances; F mode: the binary's own main() booted from file or environment) fed 2-7 bursts sized below/at/above batch_size from 1-96 sockets, with duplicate nonces across sockets and invalid datagrams interleaved; history check at quiescence (1 simulated second after the last arrival); non-trivial = at least one response sent; distinct = distinct schedule fingerprints",
        assumptions: &["a request whose single send attempt failed by an injected send_to error counts as answered-once (the attempt is matched)", "bounded liveness horizon: 1 simulated second after the last arrival once faults stop"],
        real: REAL_F,
        stub: STUB,
    }
}
