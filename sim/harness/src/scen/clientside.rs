//! Shared pieces of the client-mode checks (C01, C03): what the real client sent, received and
//! printed, per incarnation.

use crate::exec::RunOut;
use dsim::{Ev, ProcId};
use refimpl as r;

pub struct ClientRun {
    pub proc: ProcId,
    pub argv: Vec<String>,
    /// datagrams the client sent, in socket order: (bytes, classification)
    pub requests: Vec<dsim::Bytes>,
    /// datagrams the client's main task received, in processing order
    pub received: Vec<dsim::Bytes>,
    pub stdout: String,
    pub stderr: String,
    pub exit: Option<i32>,
    pub exit_how: &'static str,
    pub panics: Vec<String>,
    pub entropy: Vec<dsim::Bytes>,
    pub timed_out: bool,
}

pub fn client_runs(out: &RunOut) -> Vec<ClientRun> {
    let w = &out.world;
    let mut runs = Vec::new();
    for &p in &out.ctx.client_procs {
        let mut cr = ClientRun {
            proc: p,
            argv: w.procs[p].argv.clone(),
            requests: vec![],
            received: vec![],
            stdout: w.procs[p].stdout.clone(),
            stderr: w.procs[p].stderr.clone(),
            exit: w.procs[p].exit,
            exit_how: w.procs[p].exit_how,
            panics: vec![],
            entropy: vec![],
            timed_out: w.procs[p].stderr.contains("Timeout waiting for response"),
        };
        for rec in &w.history {
            let task_proc = rec.task.map(|t| w.tasks[t].proc);
            if task_proc != Some(p) {
                continue;
            }
            match &rec.ev {
                Ev::UdpSend { data, .. } => cr.requests.push(data.clone()),
                Ev::UdpRecv { data, truncated_to, .. } => {
                    let d: dsim::Bytes = if *truncated_to < data.len() { std::rc::Rc::new(data[..*truncated_to].to_vec()) } else { data.clone() };
                    cr.received.push(d)
                }
                Ev::Panic { msg, .. } => cr.panics.push(msg.clone()),
                Ev::Entropy { bytes, .. } => cr.entropy.push(bytes.clone()),
                _ => {}
            }
        }
        runs.push(cr);
    }
    runs
}

pub fn arg_value<'a>(argv: &'a [String], flag: &str) -> Option<&'a str> {
    argv.iter().position(|a| a == flag).and_then(|i| argv.get(i + 1)).map(|s| s.as_str())
}

pub fn has_flag(argv: &[String], flag: &str) -> bool {
    argv.iter().any(|a| a == flag)
}

pub fn proto_of(argv: &[String]) -> r::Proto {
    if arg_value(argv, "-p") == Some("13") {
        r::Proto::Ietf
    } else {
        r::Proto::Classic
    }
}

/// the time lines of stdout (everything except the signature commentary)
pub fn time_lines(stdout: &str) -> Vec<String> {
    stdout.lines().filter(|l| !l.contains("signature on DELE tag") && !l.contains("signature on SREP tag") && !l.trim().is_empty()).map(|s| s.to_string()).collect()
}

pub fn nonce_of_request(proto: r::Proto, req: &[u8]) -> Option<Vec<u8>> {
    let payload = if proto == r::Proto::Ietf && req.len() > 12 { &req[12..] } else { req };
    r::decode(payload).ok().and_then(|(m, _)| m.get(r::NONC).map(|n| n.to_vec()))
}

/// MIDP of a response without judging it
pub fn midp_of(proto: r::Proto, resp: &[u8]) -> Option<u64> {
    let payload = if proto == r::Proto::Ietf && resp.len() > 12 { &resp[12..] } else { resp };
    let (m, _) = r::decode(payload).ok()?;
    let (s, _) = r::decode(m.get(r::SREP)?).ok()?;
    let b = s.get(r::MIDP)?;
    (b.len() == 8).then(|| u64::from_le_bytes(b.try_into().unwrap()))
}
