//! C07 — only well-formed 1024..1500-byte requests are answered, never amplifying (mode W).

use super::common::*;
use super::*;
use crate::view::{self, View};
use refimpl as r;

fn budget(t: Tier) -> u64 {
    match t {
        Tier::Quick => 1600,
        Tier::Thorough => 160_000,
    }
}

fn gen(seed: u64, idx: u64, _tier: Tier) -> Plan {
    let mut rng = Rng::derive(seed, "c07");
    let mut plan = Plan::new("C07", if idx % 4 == 3 { "c07.storm_full_batches" } else { "c07.storm" }, seed);
    let mut s = ServerSpec::basic(Mode::W, &random_seed_hex(&mut rng));
    s.workers = *rng.pick(&[1i64, 1, 2]);
    s.batch_size = *rng.pick(&[1i64, 2, 7, 16, 63, 64, 64]);
    s.log_level = Some(0);
    if rng.chance(1, 5) {
        // deliberate response errors change what a reply contains, never that only well-formed
        // requests are answered nor that a reply is no longer than its request
        s.fault_pct = *rng.pick(&[10i64, 50]);
    }
    // one run in eight boots the repository's own main() under a seeded combination of the
    // settings that shape the process around the workers
    let full = idx % 8 == 6;
    if full {
        plan.scenario = "c07.storm_full_process".into();
        s.workers = *rng.pick(&[1i64, 1, 2, 3]);
        process_settings(&mut rng, &mut s);
    }
    world_knobs(&mut rng, &mut plan, false);
    if rng.chance(1, 4) {
        // transient send_to / recv_from errors: what the worker does right after one must not
        // change what the next request gets
        plan.world.faults.send_err = *rng.pick(&[30u32, 100]);
        plan.world.faults.recv_err = *rng.pick(&[0u32, 30]);
    }
    let sockets = 1 + rng.below(24) as u32;
    let mut t = if full { 25_000 } else { 6000 };
    if idx % 4 == 3 {
        // full batches of maximum depth: many valid requests at once, with oversized nonces mixed in
        s.batch_size = 64;
        plan.world.cost_scale = 10_000;
        plan.world.latency_jitter_us = 0;
        let mut ctr = seed ^ 0xba7c;
        for k in 0..(64 + rng.below(80)) {
            let spec = if rng.chance(1, 6) { storm_spec(&mut rng, &mut ctr) } else { valid_spec(&mut rng, &mut ctr) };
            plan.step(t + k / 8, Action::Send { sock: rng.below(sockets as u64) as u32, req: spec });
        }
        t += 50_000;
    }
    plan.server = Some(s);
    let n = 40 + rng.below(260) as u32;
    let end = storm(&mut rng, &mut plan, n, sockets, t);
    sentinels(&mut plan, 2, end + 30_000);
    settle(&mut plan, 500);
    plan
}

pub fn check_only_wellformed(co: &mut CheckOut, prop: &str, v: &View) {
    for s in &v.sends {
        match s.request {
            None => co.violate(prop, "misrouted_response", format!("{}|unsolicited_send", prop), format!("datagram seq {} sent to {} with no unanswered datagram from that address at this worker", s.seq, s.dst)),
            Some(i) => {
                let q = &v.recvs[i];
                let len = q.data.len();
                match &q.class {
                    Err(why) => co.violate(prop, "answered_illformed", format!("{}|answered_illformed|{}", prop, why), format!("datagram #{} of {} bytes ({}) elicited a {}-byte response", q.dgram, len, why, s.data.len())),
                    Ok(info) => {
                        if s.data.len() > len {
                            let std = info.nonce.len() == info.proto.nonce_len();
                            co.violate(
                                prop,
                                "amplification",
                                format!("{}|amplification|proto={}|nonce={}", prop, info.proto.name(), if std { "standard" } else { "oversized" }),
                                format!("{}-byte {} request #{} (nonce {} bytes) elicited a {}-byte response (batch of {})", len, info.proto.name(), q.dgram, info.nonce.len(), s.data.len(), v.batches[s.batch].sends.len()),
                            );
                        }
                    }
                }
            }
        }
    }
}

fn check(plan: &Plan, out: &RunOut) -> CheckOut {
    let mut co = CheckOut::default();
    let v = View::build(out);
    co.nontrivial = !v.recvs.is_empty() && !v.sends.is_empty();
    monitor_leak(&mut co, out);
    check_no_panic(&mut co, "C07", out);
    if plan.server.as_ref().map(|s| s.fault_pct).unwrap_or(0) == 0 {
        check_only_wellformed(&mut co, "C07", &v);
    } else {
        // a deliberately broken reply may not say which request it answers: replies that do
        // (full verification or the echoed nonce) are judged as usual, the others against the
        // longest datagram their destination has sent to this worker
        co.probe("grease_profile");
        let mut exact = View { recvs: v.recvs.clone(), sends: Vec::new(), batches: v.batches.clone(), clocks: v.clocks.clone(), sut_procs: v.sut_procs.clone() };
        for snd in &v.sends {
            if snd.how == "verified" || snd.how == "nonce" {
                exact.sends.push(snd.clone());
            } else {
                let longest = v.recvs.iter().filter(|q| q.task == snd.task && q.src == snd.dst && q.seq < snd.seq).map(|q| q.data.len()).max().unwrap_or(0);
                if snd.data.len() > longest {
                    co.violate("C07", "amplification", "C07|amplification|greased_reply".into(), format!("{}-byte reply (seq {}) to {}, whose longest datagram to this worker so far had {} bytes", snd.data.len(), snd.seq, snd.dst, longest));
                }
            }
        }
        check_only_wellformed(&mut co, "C07", &exact);
    }
    // the sentinels prove that the storm was processed
    let sentinel_answered = v.recvs.iter().any(|q| q.src == crate::reqs::client_addr(SENTINEL_SOCK) && !q.answers.is_empty());
    if sentinel_answered {
        co.probe("sentinel_answered");
    }
    let mut rejected_by_reason: BTreeMap<&str, u64> = BTreeMap::new();
    for q in &v.recvs {
        if let Err(w) = &q.class {
            *rejected_by_reason.entry(w).or_insert(0) += 1;
        }
        match q.data.len() {
            0..=1023 => co.probe("len_lt_1024"),
            1024..=1500 => co.probe("len_in_range"),
            _ => co.probe("len_gt_1500"),
        }
        if let Ok(i) = &q.class {
            if i.nonce.len() != i.proto.nonce_len() {
                co.probe("nonstandard_nonce_wellformed");
            }
        }
    }
    let maxdepth = v.sends.iter().filter_map(|s| s.verdict.as_ref().and_then(|x| x.as_ref().ok()).map(|x| x.depth)).max().unwrap_or(0);
    if maxdepth >= 6 {
        co.probe("path_depth_6");
    }
    co.count("datagrams_received", v.recvs.len() as u64);
    co.count("responses", v.sends.len() as u64);
    co.sample = Some(serde_json::json!({
        "scenario": plan.scenario, "seed": plan.seed, "batch_size": plan.server.as_ref().unwrap().batch_size,
        "datagrams_received": v.recvs.len(), "responses": v.sends.len(), "max_path_depth": maxdepth,
        "rejected_by_reason": rejected_by_reason,
        "largest_response_minus_request": v.sends.iter().filter_map(|s| s.request.map(|i| s.data.len() as i64 - v.recvs[i].data.len() as i64)).max(),
        "verdict": if co.violations.is_empty() { "ok".to_string() } else { co.violations[0].signature.clone() },
    }));
    let _ = view::short_site;
    let _ = r::MAGIC;
    co
}

pub fn property() -> Property {
    Property {
        id: "C07",
        level: "exploration",
        budget,
        gen,
        check,
        finalize: no_finalize,
        rule: "one evaluation = one simulated execution of 1-2 real Server workers fed a seeded storm of 40-300 datagrams (garbage of every length class 0..65507, truncated/extended/field-mutated valid requests, nonces of every aligned length, frame-length values, VER/SRV variants, valid requests) plus sentinels; non-trivial = the workers received datagrams and sent at least one response; distinct = distinct schedule fingerprints among non-trivial runs",
        assumptions: &["reference request predicate (refimpl::classify_request) is the trusted definition of well-formed", "absence of a reply is decided at the end of the simulated run, after sentinels sent later were answered"],
        real: REAL_W,
        stub: STUB,
    }
}
