//! C11 — signed midpoint is the server clock in the protocol's unit with a 5 s radius (mode W).

use super::common::*;
use super::*;
use crate::view::{self, View};
use refimpl as r;

fn budget(t: Tier) -> u64 {
    match t {
        Tier::Quick => 6_400,
        Tier::Thorough => 480_000,
    }
}

pub const EDGES: [u32; 7] = [0, 1, 999, 1000, 999_999_000, 999_999_999, 500_000_000];
// year 9999-12-31T23:59:59Z
pub const Y9999: u64 = 253_402_300_799;

pub fn pick_secs(rng: &mut Rng) -> u64 {
    let s = pick_secs_raw(rng);
    // one start in four sits just before a minute / hour / day rollover (a run lasts seconds,
    // so the rollover happens while requests are in flight)
    match rng.below(12) {
        0 => (s - s % 60 + 59).min(Y9999),
        1 => (s - s % 3600 + 3598).min(Y9999),
        2 => (s - s % 86_400 + 86_399).min(Y9999),
        _ => s,
    }
}

fn pick_secs_raw(rng: &mut Rng) -> u64 {
    match rng.below(8) {
        0 => rng.below(10),                     // around the epoch
        1 => 2_147_483_640 + rng.below(16),     // around 2^31
        2 => 4_294_967_290 + rng.below(12),     // around 2^32
        3 => 7_258_118_400 + rng.below(1_000_000_000), // beyond 2200
        4 => Y9999 - rng.below(5),
        5 => 1_700_000_000 + rng.below(100_000_000),
        _ => rng.below(Y9999),
    }
}

/// F mode: the real binary under a swept wall clock; every response a closed-loop client receives
/// is bracketed by the harness's own clock readings around the exchange.
fn gen_bracket(seed: u64) -> Plan {
    let mut rng = Rng::derive(seed, "c11-bracket");
    let mut plan = Plan::new("C11", "c11.full_system_bracket", seed);
    let mut s = ServerSpec::basic(Mode::F, &random_seed_hex(&mut rng));
    s.workers = *rng.pick(&[1i64, 2, 4]);
    s.batch_size = *rng.pick(&[1i64, 8, 64]);
    process_settings(&mut rng, &mut s);
    world_knobs(&mut rng, &mut plan, false);
    plan.world.wall_secs = pick_secs(&mut rng).min(Y9999 - 20);
    plan.world.wall_nanos = *rng.pick(&EDGES);
    plan.server = Some(s);
    let clients = 1 + rng.below(8) as u32;
    for c in 0..clients {
        plan.step(20_000 + rng.below(2_000), Action::ClosedLoop { sock: c, protos: vec![P::Classic, P::Ietf], count: 2 + rng.below(6) as u32, think_us: *rng.pick(&[0u64, 300, 20_000]), timeout_ms: 1000 });
    }
    plan.world.horizon_ms = 20 + 8 * 1100;
    plan
}

fn gen(seed: u64, idx: u64, _tier: Tier) -> Plan {
    if idx % 8 == 7 {
        return gen_bracket(seed);
    }
    let mut rng = Rng::derive(seed, "c11");
    let mut plan = Plan::new("C11", match idx % 4 { 2 => "c11.frozen_edges", 3 => "c11.retransmissions", _ => "c11.sweep_and_steps" }, seed);
    let mut s = ServerSpec::basic(Mode::W, &random_seed_hex(&mut rng));
    s.workers = *rng.pick(&[1i64, 1, 2]);
    s.batch_size = *rng.pick(&[1i64, 4, 64]);
    // (what an embedding program logs must not change what is signed)
    s.log_level = Some(*rng.pick(&[0u8, 0, 0, 3, 4, 5]));
    world_knobs(&mut rng, &mut plan, false);
    if rng.chance(1, 4) {
        // transient send_to / recv_from errors: what the worker does right after one must not
        // change what the next request gets
        plan.world.faults.send_err = *rng.pick(&[30u32, 100]);
        plan.world.faults.recv_err = *rng.pick(&[0u32, 30]);
    }
    plan.world.wall_secs = pick_secs(&mut rng);
    plan.world.wall_nanos = *rng.pick(&EDGES);
    plan.server = Some(s);
    let sockets = 1 + rng.below(8) as u32;
    let mut ctr = seed ^ 0xc11;
    let mut t = 6000u64;
    let rounds = 2 + rng.below(5);
    for _ in 0..rounds {
        // clock fault between (or, with zero spacing, during) batches
        if plan.scenario == "c11.frozen_edges" {
            plan.step(t, Action::WallFreeze { secs: pick_secs(&mut rng), nanos: *rng.pick(&EDGES) });
        } else {
            match rng.below(4) {
                0 => plan.step(t, Action::WallStepMs(*rng.pick(&[-3_600_000i64, -1000, -1, 1, 999, 1000, 86_400_000, -86_400_000_000]))),
                1 => plan.step(t, Action::WallSet { secs: pick_secs(&mut rng), nanos: *rng.pick(&EDGES) }),
                _ => {}
            }
        }
        let n = 1 + rng.below(12);
        for k in 0..n {
            plan.step(t + 5 + k * *rng.pick(&[0u64, 1, 30]), Action::Send { sock: rng.below(sockets as u64) as u32, req: valid_spec(&mut rng, &mut ctr) });
        }
        if rng.chance(1, 3) {
            // a step while the batch is being processed
            plan.step(t + 5 + rng.below(400), Action::WallStepMs(*rng.pick(&[-2000i64, -1, 1, 2000, 1_000_000])));
        }
        t += *rng.pick(&[2_000u64, 30_000, 250_000]);
    }
    if plan.scenario == "c11.retransmissions" {
        // the same request again, later: its midpoint must be the later reading
        let rounds = 1 + rng.below(4) as u32;
        let t2 = retransmissions(&mut rng, &mut plan, rounds, sockets, t + 1_000);
        let _ = t2;
    }
    settle(&mut plan, 300);
    plan
}

fn check_bracket(plan: &Plan, out: &RunOut, co: &mut CheckOut) {
    // wall(t) = wall_start + t in this scenario (no steps): what the harness's own clock says
    let base = plan.world.wall_secs as i128 * 1_000_000_000 + plan.world.wall_nanos as i128;
    for cl in &out.ctx.closed_loop {
        let answered: Vec<usize> = (0..cl.sent.len()).filter(|i| !cl.timed_out_requests.contains(i)).collect();
        for (k, (resp, t_got)) in cl.got.iter().enumerate() {
            let i = match answered.get(k) {
                Some(i) => *i,
                None => break,
            };
            let (req, t_sent) = &cl.sent[i];
            let info = match r::classify_request(req, &out.ctx.srv) {
                Ok(i) => i,
                Err(_) => continue,
            };
            let ver = match r::verify_response(resp, &r::VerifyOpts { proto: info.proto, request: req, nonce: &info.nonce, long_term_pk: Some(&out.ctx.long_pk), require_nonce_echo: true, lenient: false }) {
                Ok(v) => v,
                Err(_) => continue,
            };
            let unit: i128 = if info.proto == r::Proto::Classic { 1_000 } else { 1_000_000_000 };
            let before = (base + *t_sent as i128) / unit;
            let after = (base + *t_got as i128) / unit;
            let m = ver.midp as i128;
            if m < before || m > after {
                co.violate("C11", "midp_mismatch", format!("C11|midpoint_outside_bracket|proto={}", info.proto.name()), format!("client {} request {}: MIDP {} is outside the harness's own clock readings around the exchange [{}, {}] ({})", cl.sock, i, m, before, after, if info.proto == r::Proto::Classic { "microseconds" } else { "seconds" }));
            }
            if ver.radi != info.proto.radius_5s() {
                co.violate("C11", "radi_mismatch", format!("C11|radi_mismatch|proto={}", info.proto.name()), format!("RADI {} is not five seconds in the protocol's unit", ver.radi));
            }
            co.probe("bracketed_response");
        }
    }
}

fn check(plan: &Plan, out: &RunOut) -> CheckOut {
    let mut co = CheckOut::default();
    let v = View::build(out);
    co.nontrivial = !v.sends.is_empty();
    check_no_panic(&mut co, "C11", out);
    if plan.scenario == "c11.full_system_bracket" {
        check_bracket(plan, out, &mut co);
    }
    for b in &v.batches {
        if b.sends.is_empty() {
            continue;
        }
        // window of admissible readings: from the first receive of the cycle that fed this batch to
        // the batch's first send
        let first_send = v.sends[b.sends[0]].seq;
        let cycle_start = b.sends.iter().filter_map(|&s| v.sends[s].request).map(|i| v.recvs[i].seq).min().unwrap_or(b.clock_seq);
        let readings: Vec<i128> = v.clocks.get(&b.task).map(|c| c.iter().filter(|(seq, _)| *seq >= cycle_start && *seq <= first_send).map(|x| x.1).collect()).unwrap_or_default();
        for &si in &b.sends {
            let s = &v.sends[si];
            let proto = view::response_proto(&s.data);
            let ver = match &s.verdict {
                Some(Ok(x)) => x,
                _ => {
                    co.violate("C11", "response_unverifiable", "C11|response_unverifiable".into(), format!("response seq {} does not verify, midpoint cannot be judged", s.seq));
                    continue;
                }
            };
            let conv = |ns: i128| -> u64 {
                match proto {
                    r::Proto::Classic => (ns / 1000) as u64,
                    r::Proto::Ietf => (ns / 1_000_000_000) as u64,
                }
            };
            if !readings.iter().any(|ns| conv(*ns) == ver.midp) {
                co.violate(
                    "C11",
                    "midp_mismatch",
                    format!("C11|midp_mismatch|proto={}", proto.name()),
                    format!("{} response seq {}: MIDP {} is not the {} of any clock reading this worker took for the batch {:?}", proto.name(), s.seq, ver.midp, if proto == r::Proto::Classic { "microsecond count" } else { "second count" }, readings),
                );
            }
            if ver.radi != proto.radius_5s() {
                co.violate("C11", "radi_mismatch", format!("C11|radi_mismatch|proto={}", proto.name()), format!("RADI {} is not five seconds in the protocol's unit", ver.radi));
            }
            // true time of signing within midpoint +- radius (in the protocol's unit)
            let unit: i128 = if proto == r::Proto::Classic { 1_000 } else { 1_000_000_000 };
            let lo = (ver.midp as i128 - ver.radi as i128) * unit;
            let hi = (ver.midp as i128 + ver.radi as i128 + 1) * unit;
            if !readings.iter().any(|ns| *ns >= lo && *ns < hi) {
                co.violate("C11", "midpoint_not_in_window", format!("C11|signing_time_outside_radius|proto={}", proto.name()), format!("no clock reading of the batch lies within MIDP {} +- RADI {}", ver.midp, ver.radi));
            }
        }
        if readings.len() > 1 {
            co.probe("several_readings_in_window");
        }
    }
    for rec in &out.world.history {
        if let dsim::Ev::ClockRead { wall_ns } = rec.ev {
            let sub = (wall_ns % 1_000_000_000) as u32;
            if EDGES.contains(&sub) {
                co.probe("reading_exactly_on_subsecond_edge");
            }
            if wall_ns / 1_000_000_000 >= 7_258_118_400 {
                co.probe("reading_beyond_2200");
            }
            if wall_ns / 1_000_000_000 < 10 {
                co.probe("reading_near_epoch");
            }
        }
        if plan.scenario == "c11.retransmissions" {
            co.probe("retransmission_run");
        }
        if let dsim::Ev::WallStep { delta_ns } = rec.ev {
            if delta_ns < 0 {
                co.probe("backward_step");
            }
        }
    }
    co.count("responses", v.sends.len() as u64);
    co.sample = Some(serde_json::json!({
        "scenario": plan.scenario, "seed": plan.seed, "wall_start_secs": plan.world.wall_secs, "wall_start_nanos": plan.world.wall_nanos,
        "clock_steps": plan.steps.iter().filter(|s| !matches!(s.act, Action::Send { .. })).count(), "responses": v.sends.len(),
        "midpoints": v.sends.iter().filter_map(|s| s.verdict.as_ref().and_then(|x| x.as_ref().ok()).map(|x| x.midp)).take(4).collect::<Vec<_>>(),
        "verdict": if co.violations.is_empty() { "ok".to_string() } else { co.violations[0].signature.clone() },
    }));
    co
}

pub fn property() -> Property {
    Property {
        id: "C11",
        level: "exploration",
        budget,
        gen,
        check,
        finalize: no_finalize,
        rule: "seven in eight evaluations: one simulated execution of 1-2 real Server workers under a simulated wall clock that starts anywhere from the epoch to year 9999 on a sub-second edge and is stepped, set or frozen between and during 2-6 request rounds; every clock read is logged; one in eight: the real main() (1-4 workers) under a swept wall clock with closed-loop clients whose every exchange brackets the signed midpoint between the harness's own clock readings; non-trivial = at least one response sent; distinct = distinct schedule fingerprints",
        assumptions: &["the clock reading of a batch is any reading that worker took between the first receive of the cycle and the batch's first send"],
        real: REAL_W,
        stub: STUB,
    }
}
