//! C16 — effective settings equal the written ones (file or env), else start is refused.
//! Mode F, boot only: the grid of (key, value, source) is enumerated completely.

use super::common::*;
use super::fmode::*;
use super::*;
use crate::view::View;
use refimpl as r;

#[derive(Clone, Debug)]
pub struct Point {
    pub key: &'static str,
    pub value: String,
    /// Some(v): documented in-range, must run with v. None: must refuse.
    pub expect: Option<String>,
}

pub fn grid() -> Vec<Point> {
    let mut g = Vec::new();
    let mut add = |key: &'static str, value: &str, ok: bool| g.push(Point { key, value: value.to_string(), expect: if ok { Some(value.to_string()) } else { None } });
    for v in ["-1", "0", "1", "1023", "8686", "65535", "65536", "70000"] {
        let n: i64 = v.parse().unwrap();
        add("port", v, (1..=65535).contains(&n));
    }
    for v in ["-1", "0", "1", "2", "63", "64", "65", "255", "256", "257", "300", "320"] {
        let n: i64 = v.parse().unwrap();
        add("batch_size", v, (1..=64).contains(&n));
    }
    for v in ["-1", "0", "1", "25", "50", "51", "255", "256", "257", "300", "306"] {
        let n: i64 = v.parse().unwrap();
        add("fault_percentage", v, (0..=50).contains(&n));
    }
    for v in ["-1", "0", "1", "2", "4", "16", "17", "33"] {
        let n: i64 = v.parse().unwrap();
        add("num_workers", v, n >= 1);
    }
    // numbers that are not integers: never a value of an integer setting, whatever they round to
    for (k, v) in [("batch_size", "64.5"), ("batch_size", "8.0"), ("batch_size", "6e1"), ("fault_percentage", "50.9"), ("fault_percentage", "0.5"), ("fault_percentage", ".nan"), ("fault_percentage", "-0.5"), ("port", "65535.9"), ("port", "2002.0"), ("num_workers", "2.5"), ("status_interval", "6e2"), ("status_interval", "1.5"), ("health_check_port", "8000.5")] {
        add(k, v, false);
    }
    for v in ["1", "10", "60", "600", "65535"] {
        add("status_interval", v, true);
    }
    for v in ["1", "8000", "65535", "65536", "70000", "-1"] {
        let n: i64 = v.parse().unwrap();
        add("health_check_port", v, (1..=65535).contains(&n));
    }
    // (the switch is read without regard to letter case, by both sources)
    for v in ["on", "yes", "off", "no", "ON", "Yes", "On", "YES", "OFF", "No"] {
        add("client_stats", v, true);
    }
    for v in ["127.0.0.1", "0.0.0.0", "10.1.2.3"] {
        add("interface", v, true);
    }
    // the directory statistics are persisted to stays the one that was written, report after report
    for v in ["/tmp", "/var/tmp"] {
        add("persistence_directory", v, true);
    }
    // seeds: wrong length / alphabet
    add("seed", "a32049da0ffde0ded92ce10a0230d35fe615ec8461c14986baa63fe3b3bac3db", true);
    add("seed", "a32049da0ffde0ded92ce10a0230d35fe615ec8461c14986baa63fe3b3bac3", false);
    add("seed", "a32049da0ffde0ded92ce10a0230d35fe615ec8461c14986baa63fe3b3bac3db00", false);
    add("seed", "zz2049da0ffde0ded92ce10a0230d35fe615ec8461c14986baa63fe3b3bac3db", false);
    add("seed", "", false);
    // upper- and mixed-case hexadecimal is hexadecimal
    add("seed_case", "A32049DA0FFDE0DED92CE10A0230D35FE615EC8461C14986BAA63FE3B3BAC3DB", true);
    add("seed_case", "a32049DA0ffde0DED92ce10a0230d35FE615ec8461C14986baa63FE3b3bac3dB", true);
    // seeds whose hex digits read as a YAML number when written bare (as the README writes seeds):
    // the file source may refuse them (YAML hands the server a number, not a string) but must
    // never run with another value; from the environment they are ordinary seeds
    add("seed_bare", "1111111111111111111111111111111111111111111111111111111111111111", true);
    add("seed_bare", "9876543210987654321098765432109876543210987654321098765432109876", true);
    add("seed_bare", "12345678901234567890e2345678901234567890123456789012345678901234", true);
    add("seed_bare", "0000000000000000000000000000000000000000000000000000000000000042", true);
    // missing required settings and an unknown key
    add("missing", "port", false);
    add("missing", "interface", false);
    add("missing", "seed", false);
    add("unknown", "bogus_setting", false);
    g
}

fn budget(t: Tier) -> u64 {
    let n = grid().len() as u64 * 2;
    match t {
        Tier::Quick => n * 10,
        Tier::Thorough => n * 600,
    }
}

fn gen(seed: u64, idx: u64, _tier: Tier) -> Plan {
    let mut rng = Rng::derive(seed, "c16");
    let g = grid();
    let k = (idx as usize / 2) % g.len();
    let pt = &g[k];
    let source = if idx % 2 == 0 { ConfigSource::File } else { ConfigSource::Env };
    let mut plan = Plan::new("C16", "c16.grid", seed);
    plan.params.insert("point".into(), k as i64);
    let mut s = ServerSpec::basic(Mode::F, "a32049da0ffde0ded92ce10a0230d35fe615ec8461c14986baa63fe3b3bac3db");
    s.source = source.clone();
    file_layout(&mut rng, &mut s);
    // background values for the other keys vary per repetition
    s.workers = *rng.pick(&[1i64, 2, 3]);
    s.workers_written = true;
    s.batch_size = *rng.pick(&[7i64, 16, 64]);
    s.port = *rng.pick(&[2002i64, 8686, 40_000]);
    s.status_interval = Some(*rng.pick(&[10i64, 600]));
    // background settings vary per repetition: a refusal (or an effective value) must not depend on
    // what the *other* keys say
    if rng.chance(1, 2) {
        s.client_stats = Some((*rng.pick(&["on", "yes"])).to_string());
        s.persist_dir = Some("/tmp".into());
    }
    if rng.chance(1, 3) {
        s.health_port = Some(8000 + rng.below(50) as i64);
    }
    if rng.chance(1, 3) {
        s.fault_pct = 1 + rng.below(5) as i64;
        s.fault_written = true;
    }
    world_knobs(&mut rng, &mut plan, false);
    plan.world.cores = 5;
    plan.world.rcv_cap = 4096;
    // one flow -> one worker; all requests of a burst are queued before the worker runs
    plan.world.flow_hash = Some(rng.next_u64());
    plan.world.round_robin = false;
    plan.world.latency_jitter_us = 0;
    plan.world.cost_scale = 1000;
    let integer_key = matches!(pt.key, "port" | "batch_size" | "fault_percentage" | "num_workers" | "status_interval" | "health_check_port");
    match pt.key {
        // a value that is no integer is written as it stands, in place of the generated line
        _ if integer_key && pt.value.parse::<i64>().is_err() => {
            s.omit.push(pt.key.to_string());
            let k = if source == ConfigSource::Env { format!("ROUGHENOUGH_{}", pt.key.to_uppercase()) } else { pt.key.to_string() };
            s.extra.push((k, pt.value.clone()));
        }
        "port" => s.port = pt.value.parse().unwrap(),
        "batch_size" => s.batch_size = pt.value.parse().unwrap(),
        "fault_percentage" => {
            s.fault_pct = pt.value.parse().unwrap();
            s.fault_written = true;
        }
        "num_workers" => s.workers = pt.value.parse().unwrap(),
        "status_interval" => s.status_interval = Some(pt.value.parse().unwrap()),
        "health_check_port" => s.health_port = Some(pt.value.parse().unwrap()),
        "client_stats" => {
            s.client_stats = Some(pt.value.clone());
            s.persist_dir = Some("/tmp".into());
        }
        "persistence_directory" => {
            s.client_stats = Some("on".into());
            s.persist_dir = Some(pt.value.clone());
            s.status_interval = Some(1);
        }
        "fault_percentage_bg" => {}
        "interface" => s.interface = pt.value.clone(),
        "seed" => s.seed_hex = pt.value.clone(),
        "seed_bare" => {
            s.seed_hex = pt.value.clone();
            s.seed_written = Some(pt.value.clone());
        }
        "seed_case" => {
            s.seed_hex = pt.value.to_lowercase();
            s.seed_written = Some(pt.value.clone());
        }
        "missing" => s.omit.push(pt.value.clone()),
        "unknown" => s.extra.push((if source == ConfigSource::File { pt.value.clone() } else { format!("ROUGHENOUGH_{}", pt.value.to_uppercase()) }, "1".into())),
        _ => unreachable!(),
    }
    plan.server = Some(s);
    // a burst of 200 requests from one socket (batch-size probe), then spaced singles (fault probe)
    let mut ctr = seed ^ 0xc16;
    for _ in 0..200 {
        ctr += 1;
        plan.step(50_000, Action::Send { sock: 1, req: ReqSpec::Valid { proto: P::Classic, size: 1024, nonce_seed: ctr, srv: SrvMode::Absent, vers: vec![r::VER_DRAFT13] } });
    }
    if pt.key == "persistence_directory" {
        // traffic in four consecutive one-second intervals
        for k in 0..40u64 {
            ctr += 1;
            plan.step(100_000 + k * 100_000, Action::Send { sock: 2 + (k % 3) as u32, req: ReqSpec::Valid { proto: if k % 2 == 0 { P::Classic } else { P::Ietf }, size: 1024, nonce_seed: ctr, srv: SrvMode::Absent, vers: vec![r::VER_DRAFT13] } });
        }
        settle(&mut plan, 2500);
    } else {
        settle(&mut plan, 300);
    }
    plan
}

fn check(plan: &Plan, out: &RunOut) -> CheckOut {
    let mut co = CheckOut::default();
    let g = grid();
    let pt = &g[plan.p("point") as usize];
    let spec = plan.server.as_ref().unwrap();
    let src = if spec.source == ConfigSource::File { "file" } else { "env" };
    let bs = boots(out);
    let b = match bs.first() {
        Some(b) => b.clone(),
        None => return co,
    };
    co.nontrivial = true;
    monitor_leak(&mut co, out);
    let v = View::build(out);
    let bound_any = b.udp_binds.iter().any(|x| x.2);
    let refused = b.exit.map(|c| c != 0).unwrap_or(false) && !bound_any;
    let describe = format!("{} = {:?} via {}", pt.key, pt.value, src);
    // an unknown ROUGHENOUGH_* environment variable cannot be told apart from the rest of the
    // environment: the statement speaks of unknown keys in the file only
    if pt.key == "unknown" && src == "env" {
        co.probe("unknown_env_var_not_judged");
        return co;
    }
    if pt.key == "seed_bare" && src == "file" && refused {
        co.probe("bare_numeric_seed_refused");
        return co;
    }
    match &pt.expect {
        None => {
            co.probe("expected_refusal");
            if !refused {
                let served = !v.sends.is_empty();
                co.violate(
                    "C16",
                    "invalid_config_accepted",
                    format!("C16|invalid_config_accepted|key={}|source={}", pt.key, src),
                    format!("{}: start-up was not refused (exit {:?}, sockets bound: {:?}, served requests: {}); logged settings {:?}", describe, b.exit, b.udp_binds, served, b.logged.iter().map(|(k, v)| (k.clone(), v.last().cloned())).collect::<Vec<_>>()),
                );
            }
        }
        Some(want) => {
            co.probe("expected_effective");
            if b.exit.is_some() || !b.panics.is_empty() {
                co.violate("C16", "valid_config_refused", format!("C16|valid_config_refused|key={}|source={}", pt.key, src), format!("{}: documented value, but the server ended with {:?} / panics {:?}", describe, b.exit, b.panics.iter().map(|p| &p.1).collect::<Vec<_>>()));
                return co;
            }
            let mut differs = |what: &str, effective: String| {
                co.violate("C16", "effective_setting_differs", format!("C16|effective_setting_differs|key={}|source={}", pt.key, src), format!("{}: the server runs with {} = {} ({})", describe, pt.key, effective, what));
            };
            match pt.key {
                "port" | "interface" => {
                    let want_addr = format!("{}:{}", spec.interface, spec.port);
                    for (a, _, ok) in &b.udp_binds {
                        if !*ok || a.to_string() != want_addr {
                            differs("address the UDP socket was bound to", a.to_string());
                        }
                    }
                    if let Some(l) = log_says_otherwise(&b, "Server listening on", &want_addr) {
                        differs("start-up log", l);
                    }
                }
                "num_workers" => {
                    let n: usize = want.parse().unwrap();
                    if b.worker_tasks.len() != n || b.udp_binds.len() != n {
                        differs("worker threads spawned / sockets bound", format!("{} / {}", b.worker_tasks.len(), b.udp_binds.len()));
                    }
                    if let Some(l) = log_says_otherwise(&b, "Number of workers", want) {
                        differs("start-up log", l);
                    }
                }
                "health_check_port" => {
                    let want_addr = format!("{}:{}", spec.interface, want);
                    if b.tcp_listens.is_empty() || b.tcp_listens.iter().any(|(a, ok)| !*ok || a.to_string() != want_addr) {
                        differs("TCP listeners", format!("{:?}", b.tcp_listens));
                    }
                }
                "status_interval" => {
                    let secs: u64 = want.parse().unwrap();
                    let base = secs * 1_000_000_000 / 10;
                    for d in &b.timer_delays {
                        let diff = (*d as i64 - base as i64).unsigned_abs();
                        if diff >= 256_000_000 {
                            differs("first status timer period (interval/10 +- <256 ms)", format!("{} ns", d));
                        }
                    }
                    if let Some(l) = log_says_otherwise(&b, "Status updates every", &format!("{} seconds", secs)) {
                        differs("start-up log", l);
                    }
                }
                "batch_size" => {
                    let n: usize = want.parse().unwrap();
                    let largest = v.batches.iter().map(|b| b.sends.len()).max().unwrap_or(0);
                    if largest != n.min(200) {
                        differs("largest batch a 200-request burst produced", largest.to_string());
                    }
                    if let Some(l) = log_says_otherwise(&b, "Max response batch size", want) {
                        differs("start-up log", l);
                    }
                }
                "fault_percentage" => {
                    let p: u64 = want.parse().unwrap();
                    let fails = v.sends.iter().filter(|s| !matches!(s.verdict, Some(Ok(_)))).count();
                    if p == 0 && fails > 0 {
                        differs("replies failing verification with fault injection written as 0", fails.to_string());
                    }
                    let want_log = if p == 0 { "disabled".to_string() } else { format!("~{}%", p) };
                    if let Some(l) = log_says_otherwise(&b, "Deliberate response errors", &want_log) {
                        differs("start-up log", l);
                    }
                    // 200 replies: the failing count must be plausible for p (6 sigma)
                    let q = p as f64 / 100.0;
                    let n = v.sends.len() as f64;
                    if p > 0 && n >= 100.0 && (fails as f64 - n * q).abs() > 6.0 * (n * q * (1.0 - q)).sqrt() + 1.0 {
                        differs("share of failing replies", format!("{} of {}", fails, n));
                    }
                }
                "client_stats" => {
                    let on = want.eq_ignore_ascii_case("on") || want.eq_ignore_ascii_case("yes");
                    if let Some(l) = log_says_otherwise(&b, "Client req/resp tracking", if on { "per-client" } else { "aggregated" }) {
                        differs("start-up log", l);
                    }
                    if b.reporter_task != on {
                        differs("reporter thread started", b.reporter_task.to_string());
                    }
                }
                "persistence_directory" => {
                    let created: Vec<&String> = out.world.history.iter().filter_map(|r| match &r.ev { dsim::Ev::FileCreate { path, ok: true } => Some(path), _ => None }).collect();
                    let prefix = format!("{}/", want.trim_end_matches('/'));
                    if let Some(p) = created.iter().find(|p| !p.starts_with(&prefix)) {
                        differs("directory a statistics file was created in", p.to_string());
                    }
                    if created.len() < 2 {
                        differs("statistics files written over four intervals with traffic", created.len().to_string());
                    }
                }
                "seed" | "seed_bare" | "seed_case" => {
                    // the key the server runs with shows in every certificate it sends (the view
                    // verifies responses under the key of the written seed); the start-up line, where
                    // present, must name the same key
                    let pk = r::hex_lower(&r::pubkey_from_seed(&crate::exec::hex_decode(want).unwrap()));
                    if let Some(l) = log_says_otherwise(&b, "Long-term public key", &pk) {
                        differs("announced public key", l);
                    }
                    // (a response that verifies proves possession of that seed's key; with deliberate
                    // errors configured in the background some replies fail by design)
                    if !v.sends.iter().any(|s| matches!(&s.verdict, Some(Ok(_)))) {
                        differs("certificate chain of the responses", format!("none of {} responses verifies under the written seed's key", v.sends.len()));
                    }
                }
                _ => {}
            }
        }
    }
    co.sample = Some(serde_json::json!({
        "scenario": plan.scenario, "seed": plan.seed, "point": describe, "expected": if pt.expect.is_some() { "runs with the written value" } else { "start refused" },
        "exit": b.exit, "udp_binds": b.udp_binds.iter().map(|x| format!("{} ok={}", x.0, x.2)).collect::<Vec<_>>(), "worker_threads": b.worker_tasks.len(),
        "logged": b.logged.iter().map(|(k, v)| (k.clone(), v.last().cloned())).collect::<BTreeMap<_, _>>(),
        "verdict": if co.violations.is_empty() { "ok".to_string() } else { co.violations[0].signature.clone() },
    }));
    co
}

/// The start-up banner is corroborating evidence only: a line that is present and states another
/// value is reported; a missing or reworded line is not (the effective value is read off the
/// machine: sockets, threads, timers, batches, certificates).
fn log_says_otherwise(b: &Boot, key: &str, want: &str) -> Option<String> {
    match logged_one(b, key) {
        Some(l) if l != want => Some(format!("{:?}", l)),
        _ => None,
    }
}

pub fn property() -> Property {
    Property {
        id: "C16",
        level: "exploration",
        budget,
        gen,
        check,
        finalize: no_finalize,
        rule: "the grid of documented keys x boundary values (min-1, min, typical, max, max+1, wrap points 255/256/257/300/65535/65536/70000, negatives; missing required keys; an unknown key; seeds of wrong length or alphabet) x {file, environment} is enumerated completely; each point is one boot of the real main() in the simulator with seeded background values for the other keys, followed by a 200-request burst; effective values are read off the simulated machine (addresses bound, threads spawned, TCP listeners, timer periods, largest batch, failing-reply share, announced key) and cross-checked against the start-up log; non-trivial = every boot; distinct = distinct schedule fingerprints",
        assumptions: &["an unknown ROUGHENOUGH_* environment variable is not judged (the statement speaks of unknown keys in the file)", "documented ranges as in the property statement: port 1-65535, batch_size 1-64, fault_percentage 0-50, num_workers >= 1"],
        real: REAL_F,
        stub: STUB,
    }
}
