//! Shared generators and oracle helpers.

use super::CheckOut;
use crate::exec::RunOut;
use crate::plan::*;
use crate::view::{self, View};
use dsim::rng::Rng;
use refimpl as r;

pub fn seed_hex(rng: &mut Rng) -> String {
    let mut s = [0u8; 32];
    match rng.below(12) {
        0 => s = [0u8; 32],
        1 => s = [0xff; 32],
        2 => {
            s = [0u8; 32];
            s[0] = 1;
        }
        3 => {
            s = [0u8; 32];
            s[31] = 0x80;
        }
        _ => rng.fill(&mut s),
    }
    r::hex_lower(&s)
}

pub fn random_seed_hex(rng: &mut Rng) -> String {
    let mut s = [0u8; 32];
    rng.fill(&mut s);
    // one seed in four has bytes a data-dependent defect could key on at its edges
    // (the rest stays random: the leak scanners need seeds with many distinct bytes)
    match rng.below(16) {
        0 => s[0] = 0,
        1 => s[31] = 0,
        2 => s[..4].fill(0xff),
        3 => {
            s[0] = 0x0a;
            s[31] = 0x22
        }
        _ => {}
    }
    r::hex_lower(&s)
}

/// Settings that shape the process around the workers and must not change what any client gets:
/// a seeded combination for runs that boot the repository's own `main()`.
/// Half of the configuration files are laid out differently from the README (see `ServerSpec.layout`).
pub fn file_layout(rng: &mut Rng, s: &mut ServerSpec) {
    if s.source == ConfigSource::File && rng.chance(1, 2) {
        s.layout = rng.next_u64() | 1;
    }
}

pub fn process_settings(rng: &mut Rng, s: &mut ServerSpec) {
    s.mode = Mode::F;
    s.source = if rng.chance(1, 2) { ConfigSource::File } else { ConfigSource::Env };
    file_layout(rng, s);
    if rng.chance(1, 2) {
        s.client_stats = Some((*rng.pick(&["on", "yes"])).into());
        s.persist_dir = Some("/tmp".into());
    }
    if rng.chance(1, 2) {
        s.status_interval = Some(*rng.pick(&[1i64, 10, 600]));
    }
    if rng.chance(1, 3) {
        s.health_port = Some(8000 + rng.below(100) as i64);
    }
}

/// Per-run knobs of the simulated machine (swarm style). `faulty` selects the fault profile.
pub fn world_knobs(rng: &mut Rng, plan: &mut Plan, faulty: bool) {
    let w = &mut plan.world;
    w.cost_scale = *rng.pick(&[100, 300, 1000, 1000, 3000, 10_000, 20_000]);
    w.strategy = match rng.below(4) {
        0 => StrategySpec::Uniform,
        1 => StrategySpec::Sticky(800),
        2 => StrategySpec::Sticky(300),
        _ => StrategySpec::StarveOne(rng.below(16) as u32),
    };
    w.flow_hash = if rng.chance(1, 2) { Some(rng.next_u64()) } else { None };
    w.rcv_cap = *rng.pick(&[64usize, 512, 512, 4096]);
    w.latency_us = *rng.pick(&[5u64, 50, 200, 2000]);
    w.latency_jitter_us = *rng.pick(&[0u64, 20, 500]);
    w.cores = 1 + rng.below(16) as usize;
    // thread start-up latency: with 0 a new thread runs at once (starts in spawn order); real
    // threads usually start after the spawner has moved on
    w.spawn_latency_us = *rng.pick(&[0u64, 20, 150, 150, 1_000]);
    if faulty {
        let f = &mut w.faults;
        // a random subset of fault kinds per run
        let on = |p: u32, rng: &mut Rng| if rng.chance(1, 2) { p } else { 0 };
        f.c2s_drop = on(20, rng);
        f.c2s_dup = on(30, rng);
        f.c2s_delay = on(50, rng);
        f.c2s_phantom = on(20, rng);
        f.c2s_truncate = on(15, rng);
        f.s2c_drop = on(20, rng);
        f.s2c_dup = on(20, rng);
        f.s2c_delay = on(50, rng);
        f.delay_max_us = 20_000;
        f.poll_spurious = on(50, rng);
        f.timer_late = on(200, rng);
        f.postpone = on(20, rng);
        f.postpone_max_us = *rng.pick(&[100u32, 5_000, 50_000]);
    }
}

pub struct Workload {
    pub sockets: u32,
    pub bursts: u32,
    pub max_burst: u32,
    /// per-mille of requests that are IETF
    pub ietf_permille: u32,
    pub with_srv_permille: u32,
    pub start_us: u64,
}

/// Bursts of valid requests with clustered arrival times, so that batches of every size form.
/// Returns the time of the last step.
pub fn valid_bursts(rng: &mut Rng, plan: &mut Plan, wl: &Workload) -> u64 {
    let mut t = wl.start_us;
    let mut nonce_ctr = plan.seed.wrapping_mul(7919);
    for _ in 0..wl.bursts {
        let n = match rng.below(4) {
            0 => 1 + rng.below(3),
            1 => 1 + rng.below(wl.max_burst.min(20) as u64),
            _ => 1 + rng.below(wl.max_burst as u64),
        };
        let spacing_ns: u64 = *rng.pick(&[0u64, 0, 1, 5, 50, 400]);
        for k in 0..n {
            let proto = if rng.below(1000) < wl.ietf_permille as u64 { P::Ietf } else { P::Classic };
            let size = 1024 + 4 * rng.below(120) as u16;
            let srv = if proto == P::Ietf && rng.below(1000) < wl.with_srv_permille as u64 { SrvMode::Correct } else { SrvMode::Absent };
            nonce_ctr = nonce_ctr.wrapping_add(1);
            let vers = if proto == P::Ietf && rng.chance(1, 4) { vec![r::VER_CLASSIC, r::VER_DRAFT13] } else { vec![r::VER_DRAFT13] };
            let req = ReqSpec::Valid { proto, size, nonce_seed: nonce_ctr, srv, vers };
            plan.step(t + k * spacing_ns, Action::Send { sock: rng.below(wl.sockets as u64) as u32, req });
        }
        t += n * spacing_ns + *rng.pick(&[200u64, 2_000, 20_000, 120_000]);
    }
    t
}

/// Byte-identical retransmissions: a request sent alone, then again (same socket, same bytes)
/// after `gap_us`, with nothing else of that protocol in between. Returns the end time.
pub fn retransmissions(rng: &mut Rng, plan: &mut Plan, rounds: u32, sockets: u32, start_us: u64) -> u64 {
    let mut t = start_us;
    let mut ctr = plan.seed.wrapping_mul(104_729) ^ 0x7e7;
    for _ in 0..rounds {
        let spec = valid_spec(rng, &mut ctr);
        let sock = rng.below(sockets as u64) as u32;
        let copies = 2 + rng.below(2);
        for _ in 0..copies {
            plan.step(t, Action::Send { sock, req: spec.clone() });
            t += *rng.pick(&[300u64, 2_000, 50_000, 1_200_000, 6_000_000]);
        }
    }
    t
}

/// Set the horizon so that everything sent can be processed, plus settle time.
/// One run in four: the wall clock is stepped once or twice while the server runs (an NTP
/// correction, an operator setting the date). Nothing a client gets other than the time itself,
/// and nothing about the server's liveness, may depend on it. Call after the workload is laid out
/// and before `settle`: the steps fall between the first and the last step of the plan.
pub fn wall_steps(rng: &mut Rng, plan: &mut Plan) {
    if !rng.chance(1, 4) {
        return;
    }
    let last = plan.last_step_us().max(30_000);
    for _ in 0..1 + rng.below(2) {
        let t = 25_000 + rng.below(last - 25_000 + 1);
        plan.step(t, Action::WallStepMs(*rng.pick(&[-3_600_000i64, -61_000, -1000, -1, 1, 999, 1000, 61_000, 86_400_000])));
        plan.params.insert("wall_steps".into(), 1);
    }
}

pub fn settle(plan: &mut Plan, settle_ms: u64) {
    let last = plan.last_step_us();
    plan.world.horizon_ms = last / 1000 + settle_ms;
    plan.world.faults_until_ms = last / 1000 + 1;
}

// ------------------------------------------------------------------------------------------
// oracle helpers
// ------------------------------------------------------------------------------------------

/// Monitors that are on in every W and F run: no SUT task panics unexpectedly (reported for the
/// calling property only when `own` is true), and the seed never leaks (C20's monitor).
pub fn monitor_leak(co: &mut CheckOut, out: &RunOut) {
    let seed = &out.ctx.seed;
    if seed.len() != 32 {
        return;
    }
    // degenerate seeds (all-zero, all-0xff, one bit set) occur legitimately in padding, MINT/MAXT
    // and zero tree nodes: the scan is meaningful only for seeds with some entropy
    let distinct: std::collections::BTreeSet<u8> = seed.iter().copied().collect();
    if distinct.len() < 12 {
        return;
    }
    for (chan, enc, hit) in leak_scan(out, seed) {
        if hit {
            co.violate("C20", "secret_emitted", format!("C20|secret_emitted|channel={}|encoding={}", chan, enc), format!("long-term seed material found on {} as {}", chan, enc));
        }
    }
}

pub fn needles(seed: &[u8]) -> Vec<(String, Vec<u8>)> {
    let mut out = Vec::new();
    for (what, bytes) in [("seed", seed.to_vec()), ("scalar", r::private_scalar(seed)), ("expanded", r::expanded_secret_lo(seed))] {
        out.push((format!("{}:raw", what), bytes.clone()));
        let hex = r::hex_lower(&bytes);
        out.push((format!("{}:hex", what), hex.clone().into_bytes()));
        out.push((format!("{}:HEX", what), hex.to_uppercase().into_bytes()));
        for (url, pad) in [(false, true), (false, false), (true, true), (true, false)] {
            // un-padded form: drop the last (partial) group so that a match inside a longer
            // encoding is still found: 32 bytes = 10 full groups + 2 bytes
            let b = r::base64(&bytes, url, pad);
            let core = r::base64(&bytes[..30], url, false);
            out.push((format!("{}:base64{}{}", what, if url { "url" } else { "" }, if pad { "" } else { "-nopad" }), if pad { b.into_bytes() } else { core.into_bytes() }));
        }
    }
    out
}

/// (channel, encoding, found)
pub fn leak_scan(out: &RunOut, seed: &[u8]) -> Vec<(String, String, bool)> {
    let w = &out.world;
    let nd = needles(seed);
    let mut res = Vec::new();
    let mut scan = |chan: &str, hay: &[u8], res: &mut Vec<(String, String, bool)>| {
        // hexadecimal is matched without regard to case (a seed written as "A3b0..." leaks as such)
        let lower: Vec<u8> = hay.to_ascii_lowercase();
        for (enc, n) in &nd {
            let found = if enc.ends_with(":hex") { r::find_sub(&lower, n) } else { r::find_sub(hay, n) };
            if found {
                res.push((chan.to_string(), enc.clone(), true));
            }
        }
    };
    for rec in &w.history {
        match &rec.ev {
            dsim::Ev::UdpSend { sock, data, .. } => {
                if w.procs[w.socks[*sock].proc].sut {
                    scan("datagram", data, &mut res);
                }
            }
            dsim::Ev::Log { proc, msg, .. } if w.procs[*proc].sut => scan("log", msg.as_bytes(), &mut res),
            dsim::Ev::TcpWrite { data, .. } => scan("tcp", data, &mut res),
            _ => {}
        }
    }
    for p in &w.procs {
        if p.sut {
            scan("stdout", p.stdout.as_bytes(), &mut res);
            scan("stderr", p.stderr.as_bytes(), &mut res);
        }
    }
    for (path, f) in &w.vfs {
        if path != crate::exec::CONFIG_PATH {
            scan("file", &f.data, &mut res);
        }
    }
    res
}

pub fn class_of_reject(reason: &str) -> &'static str {
    if reason.contains("CERT.SIG") {
        "cert_sig_invalid"
    } else if reason.contains("SIG does not verify") {
        "srep_sig_invalid"
    } else if reason.contains("inclusion path") || reason.contains("PATH") {
        "merkle_mismatch"
    } else if reason.contains("nonce") || reason.contains("NONC") {
        "nonce_echo_mismatch"
    } else if reason.contains("INDX out of range") {
        "index_path_inconsistent"
    } else if reason.contains("window") {
        "midpoint_not_in_window"
    } else {
        "response_not_wellformed"
    }
}

/// C02's per-response validity oracle, shared with C09/C18/C19: every send answers a valid
/// request and verifies in full for it.
pub fn check_validity(co: &mut CheckOut, prop: &str, v: &View) {
    for s in &v.sends {
        let batch_n = v.batches[s.batch].sends.len();
        let proto = view::response_proto(&s.data);
        match (&s.request, &s.verdict) {
            (Some(_), Some(Ok(_))) => {}
            (Some(i), Some(Err(rej))) => {
                let class = class_of_reject(rej.0);
                let sig = if class == "merkle_mismatch" { format!("{}|merkle_mismatch|proto={}|batch{}", prop, proto.name(), if batch_n > 1 { ">1" } else { "=1" }) } else { format!("{}|{}|proto={}", prop, class, proto.name()) };
                co.violate(prop, class, sig, format!("response #{} (seq {}) to {} for request seq {} in a batch of {}: {}", s.dgram, s.seq, s.dst, v.recvs[*i].seq, batch_n, rej.0));
            }
            (Some(i), None) => {
                co.violate(prop, "answered_illformed", format!("{}|answered_illformed", prop), format!("response seq {} answers datagram seq {} which is not a request: {:?}", s.seq, v.recvs[*i].seq, v.recvs[*i].class.as_ref().err()));
            }
            (None, _) => {
                co.violate(prop, "misrouted_response", format!("{}|unsolicited_send", prop), format!("datagram seq {} sent to {} which has no unanswered request at this worker", s.seq, s.dst));
            }
        }
    }
}

/// Index/path consistency inside each batch: INDX pairwise distinct, depth >= 1 when n >= 2.
pub fn check_batch_shape(co: &mut CheckOut, prop: &str, v: &View) {
    for b in &v.batches {
        let mut seen = std::collections::BTreeSet::new();
        let n = b.sends.len();
        for &si in &b.sends {
            if let Some(Ok(ver)) = &v.sends[si].verdict {
                if !seen.insert(ver.index) {
                    co.violate(prop, "index_path_inconsistent", format!("{}|index_path_inconsistent|duplicate_index", prop), format!("two responses of one batch carry INDX {}", ver.index));
                }
                if n >= 2 && ver.depth == 0 {
                    co.violate(prop, "index_path_inconsistent", format!("{}|index_path_inconsistent|empty_path", prop), format!("batch of {} with an empty PATH", n));
                }
            }
        }
    }
}

pub fn check_no_panic(co: &mut CheckOut, prop: &str, out: &RunOut) {
    for (name, _, msg, loc) in view::sut_panics(out) {
        let file = loc.rsplit('/').next().unwrap_or("").split(':').next().unwrap_or("").to_string();
        co.violate(prop, "task_panicked", format!("{}|task_panicked|site={}|{}", prop, file, view::short_site(&msg)), format!("task {} panicked at {}: {}", name, loc, msg));
    }
}

// ------------------------------------------------------------------------------------------
// datagram storms (C07 / C08 / C09 / C20)
// ------------------------------------------------------------------------------------------

pub const LEN_CLASSES: [u32; 24] = [0, 1, 3, 4, 7, 8, 11, 12, 16, 100, 1020, 1023, 1024, 1025, 1028, 1200, 1499, 1500, 1501, 1504, 2000, 4096, 9000, 65_507];
pub const WORDS: [u32; 22] = [0, 1, 2, 3, 4, 5, 7, 8, 64, 1000, 1020, 1024, 1028, 1500, 0x7fff_ffff, 0x8000_0000, 0xffff_fffc, 0xffff_ffff, 0x434e_4f4e, 0xff44_4150, 0x0052_4556, 0x8000_000c];

pub fn valid_spec(rng: &mut Rng, ctr: &mut u64) -> ReqSpec {
    *ctr = ctr.wrapping_add(1);
    let proto = if rng.chance(1, 2) { P::Ietf } else { P::Classic };
    let srv = if proto == P::Ietf && rng.chance(1, 3) { SrvMode::Correct } else { SrvMode::Absent };
    // sizes: uniform over the legal range, one in six at its edges
    let size = if rng.chance(1, 6) { *rng.pick(&[1024u16, 1028, 1496, 1500, 1500]) } else { 1024 + 4 * rng.below(120) as u16 };
    let base = ReqSpec::Valid { proto, size, nonce_seed: *ctr, srv, vers: vec![r::VER_DRAFT13] };
    if rng.chance(1, 10) {
        // padding is not the server's business: a request whose padding is not zero is as valid
        return ReqSpec::Mutant { base: Box::new(base), muts: vec![Mutation::Scribble { pos: size as u32 - 64, len: 64, seed: rng.next_u64() }] };
    }
    base
}

/// One datagram of an "interesting" kind; `ctr` keeps nonces unique.
pub fn storm_spec(rng: &mut Rng, ctr: &mut u64) -> ReqSpec {
    let base = valid_spec(rng, ctr);
    let size = match &base {
        ReqSpec::Valid { size, .. } => *size as u32,
        _ => 1024,
    };
    match rng.below(13) {
        12 => {
            // a well-formed request re-encoded with two fields exchanged or one repeated: tags
            // not strictly ascending (with this server's SRV present half of the time, so that
            // every other condition for an answer holds)
            *ctr = ctr.wrapping_add(1);
            let b = if rng.chance(2, 3) {
                ReqSpec::Valid { proto: P::Ietf, size: size as u16, nonce_seed: *ctr, srv: if rng.chance(1, 2) { SrvMode::Correct } else { SrvMode::Absent }, vers: vec![r::VER_DRAFT13] }
            } else {
                ReqSpec::Valid { proto: P::Classic, size: size as u16, nonce_seed: *ctr, srv: SrvMode::Absent, vers: vec![] }
            };
            let muts = match rng.below(10) {
                // one protocol's field inside the other protocol's request: a classic request that
                // names IETF versions or a server, an IETF request with response-only tags
                8 | 9 => {
                    let (tag, value): (u32, Vec<u8>) = match rng.below(8) {
                        // tags whose value is a nested message in a response, here with a value
                        // that is none (a server has no reason to look inside)
                        5 => (r::CERT, vec![0xff; 4]),
                        6 => (r::DELE, vec![0xff, 0xff, 0xff, 0x7f, 0, 0, 0, 0]),
                        7 => (r::SREP, (0..12u8).map(|i| i.wrapping_mul(37) | 0x80).collect()),
                        0 | 1 => (r::VER, r::VER_DRAFT13.to_le_bytes().to_vec()),
                        2 => (r::VER, [7u32.to_le_bytes(), r::VER_DRAFT13.to_le_bytes()].concat()),
                        3 => (r::SRV, vec![0x5a; 32]),
                        _ => (r::INDX, 1u32.to_le_bytes().to_vec()),
                    };
                    vec![Mutation::PutField { tag, value }]
                }
                0..=2 => vec![Mutation::SwapFields(rng.below(4) as u8, rng.below(4) as u8)],
                3 => vec![Mutation::RepeatField(rng.below(4) as u8)],
                // a well-formed message without one of its fields (NONC, VER, the padding)
                4 | 5 => vec![Mutation::DropField(rng.below(4) as u8)],
                // one more (known) tag, then one offset word changed: with four or five fields an
                // offset pair can decrease without touching the fields a server looks at
                _ => {
                    let extra = *rng.pick(&[r::PAD, r::ZZZZ, r::INDX, r::SIG, r::MAXT]);
                    let mut v = vec![Mutation::AppendField { tag: extra, len: *rng.pick(&[0u16, 4, 32]) }];
                    if rng.chance(1, 2) {
                        v.push(Mutation::AppendField { tag: *rng.pick(&[r::PAD, r::ZZZZ, r::ROOT]), len: 0 });
                    }
                    if rng.chance(3, 4) {
                        v.push(Mutation::SetOffset { index: rng.below(4) as u8, value: *rng.pick(&[0u32, 4, 8, 32, 36, 64, 68, 100, 1000, 1024, 0xffff_fffc]) });
                    }
                    v
                }
            };
            ReqSpec::Mutant { base: Box::new(b), muts }
        }
        0 => ReqSpec::Garbage { len: if rng.chance(2, 3) { *rng.pick(&LEN_CLASSES) } else { rng.below(3000) as u32 }, seed: rng.next_u64() },
        1 | 2 => base,
        3 => {
            let n = *rng.pick(&[0u32, 4, 8, 12, 16, 512, 1000, 1020, 1023, size.saturating_sub(4), size.saturating_sub(1)]);
            ReqSpec::Mutant { base: Box::new(base), muts: vec![Mutation::Truncate(n)] }
        }
        4 => {
            let n = *rng.pick(&[1u32, 2, 3, 4, 8, 100, 1500u32.saturating_sub(size), 1501u32.saturating_sub(size), 1504u32.saturating_sub(size), 3000]);
            ReqSpec::Mutant { base: Box::new(base), muts: vec![Mutation::Extend(n)] }
        }
        5 => {
            // count / offset / tag words of the (possibly framed) header
            let index = rng.below(12) as u32;
            ReqSpec::Mutant { base: Box::new(base), muts: vec![Mutation::SetWord { index, value: *rng.pick(&WORDS) }] }
        }
        6 => {
            let proto = if rng.chance(1, 2) { P::Ietf } else { P::Classic };
            let nonce_len = 4 * rng.below(371) as u16; // 0..=1480
            *ctr = ctr.wrapping_add(1);
            ReqSpec::NonceLen { proto, size: 1024 + 4 * rng.below(120) as u16, nonce_len: if rng.chance(1, 4) { *rng.pick(&[0u16, 4, 8, 28, 36, 60, 68, 128, 1016, 1480]) } else { nonce_len }, nonce_seed: *ctr }
        }
        7 => {
            *ctr = ctr.wrapping_add(1);
            let b = ReqSpec::Valid { proto: P::Ietf, size: size as u16, nonce_seed: *ctr, srv: SrvMode::Absent, vers: vec![r::VER_DRAFT13] };
            let actual = size - 12;
            let m = match rng.below(4) {
                0 => Mutation::FrameLenDelta(rng.below(17) as i32 - 8),
                1 => Mutation::FrameLen(*rng.pick(&[0u32, 1, 4, 1012, 1488, size, size - 12, size - 8, 0xffff_ffff, 0x8000_0000])),
                // every single-bit corruption of the length word, and carries into the upper half
                2 => Mutation::FrameLen(actual ^ (1 << rng.below(32))),
                _ => Mutation::FrameLen(actual.wrapping_add(*rng.pick(&[0x1_0000u32, 0x2_0000, 0x100_0000, 0xffff_0000, 0x8000_0000, 0x100, 0xff00]))),
            };
            ReqSpec::Mutant { base: Box::new(b), muts: vec![m] }
        }
        8 => {
            *ctr = ctr.wrapping_add(1);
            let ver: Option<Vec<u8>> = match rng.below(5) {
                0 => None,
                1 => Some(vec![]),
                2 => Some(vec![0x0c, 0, 0]),
                3 => Some(r::VER_CLASSIC.to_le_bytes().to_vec()),
                _ => Some([7u32.to_le_bytes(), r::VER_DRAFT13.to_le_bytes()].concat()),
            };
            let srv = match rng.below(5) {
                0 => SrvMode::Correct,
                1 => SrvMode::Other(rng.next_u64()),
                2 => SrvMode::BitFlip(rng.below(256) as u16),
                3 => SrvMode::Len(*rng.pick(&[0u16, 4, 28, 36, 64])),
                _ => SrvMode::Absent,
            };
            ReqSpec::RawVer { size: size as u16, nonce_seed: *ctr, ver, srv }
        }
        9 => ReqSpec::Mutant { base: Box::new(base), muts: vec![Mutation::FlipBit(rng.below(8 * 64) as u32)] },
        10 => ReqSpec::Mutant { base: Box::new(base), muts: vec![Mutation::Scribble { pos: rng.below(48) as u32, len: 1 + rng.below(16) as u32, seed: rng.next_u64() }] },
        _ => ReqSpec::Mutant { base: Box::new(base), muts: vec![Mutation::FlipBit(rng.below(8 * size as u64) as u32), Mutation::FlipBit(rng.below(8 * size as u64) as u32)] },
    }
}

pub const SENTINEL_SOCK: u32 = 9000;

/// A storm of `n` datagrams from `sockets` sockets starting at `start_us`; returns the end time.
pub fn storm(rng: &mut Rng, plan: &mut Plan, n: u32, sockets: u32, start_us: u64) -> u64 {
    let mut t = start_us;
    let mut ctr = plan.seed.wrapping_mul(31337) ^ 0x5707;
    for _ in 0..n {
        let spec = storm_spec(rng, &mut ctr);
        plan.step(t, Action::Send { sock: rng.below(sockets as u64) as u32, req: spec });
        t += *rng.pick(&[0u64, 0, 0, 1, 3, 20, 150, 3000]);
    }
    t
}

/// `k` valid sentinel requests (alternating protocols) from a dedicated socket, spaced 20 ms.
pub fn sentinels(plan: &mut Plan, k: u32, start_us: u64) -> u64 {
    let mut t = start_us;
    for i in 0..k {
        let proto = if i % 2 == 0 { P::Classic } else { P::Ietf };
        let req = ReqSpec::Valid { proto, size: 1024, nonce_seed: plan.seed ^ (0x5e17 + i as u64), srv: SrvMode::Absent, vers: vec![r::VER_DRAFT13] };
        plan.step(t, Action::Send { sock: SENTINEL_SOCK + i, req });
        t += 20_000;
    }
    t
}

/// The last thing a run sends: 1-6 awkward datagrams and, in the same instant behind them, one
/// valid request from its own sentinel socket. Nothing arrives afterwards, so a worker that stops
/// draining part-way through its queue (and would be rescued by the wake-up of the next arrival)
/// leaves that request unanswered.
pub fn final_burst(rng: &mut Rng, plan: &mut Plan, t_us: u64) {
    let mut ctr = plan.seed ^ 0xf1a1;
    // one time in three (small batch sizes only) the burst is longer than one pass of the event
    // loop takes (16 batches): the rest must be served without a new arrival
    let bs = plan.server.as_ref().map(|s| s.batch_size).unwrap_or(64).max(1) as u64;
    if bs <= 8 && rng.chance(1, 3) {
        for _ in 0..16 * bs + 2 + rng.below(2 * bs + 2) {
            let req = if rng.chance(1, 2) { valid_spec(rng, &mut ctr) } else { storm_spec(rng, &mut ctr) };
            plan.step(t_us, Action::Send { sock: 300 + rng.below(16) as u32, req });
        }
    }
    for _ in 0..1 + rng.below(6) {
        let req = match rng.below(4) {
            0 => ReqSpec::Garbage { len: 0, seed: 0 },
            1 => ReqSpec::Garbage { len: *rng.pick(&[1u32, 3, 4, 1023, 1501, 3000]), seed: rng.next_u64() },
            _ => storm_spec(rng, &mut ctr),
        };
        plan.step(t_us, Action::Send { sock: 300 + rng.below(4) as u32, req });
    }
    let proto = if rng.chance(1, 2) { P::Classic } else { P::Ietf };
    let req = ReqSpec::Valid { proto, size: 1024, nonce_seed: plan.seed ^ 0x5e99, srv: SrvMode::Absent, vers: vec![r::VER_DRAFT13] };
    plan.step(t_us, Action::Send { sock: SENTINEL_SOCK + 8, req });
}

/// Exactly-once / right-recipient oracle over the recorded history (C09, C18).
/// `relax_send_faults`: a request whose only send attempt failed is not "missing".
pub fn check_exactly_once(co: &mut CheckOut, prop: &str, v: &View, out: &RunOut, demand_liveness: bool) {
    for rcv in &v.recvs {
        let n = rcv.answers.len();
        match &rcv.class {
            Ok(info) => match info.must {
                r::Must::Answer => {
                    if n == 0 && demand_liveness {
                        co.violate(prop, "missing_response", format!("{}|missing_response|proto={}", prop, info.proto.name()), format!("valid {} request #{} (seq {}) from {} received by a worker but never answered", info.proto.name(), rcv.dgram, rcv.seq, rcv.src));
                    }
                    if n > 1 {
                        co.violate(prop, "duplicate_response", format!("{}|duplicate_response", prop), format!("request #{} from {} answered {} times", rcv.dgram, rcv.src, n));
                    }
                }
                r::Must::Either(_) => {
                    if n > 1 {
                        co.violate(prop, "duplicate_response", format!("{}|duplicate_response", prop), format!("request #{} from {} answered {} times", rcv.dgram, rcv.src, n));
                    }
                }
                r::Must::Silent(_) => {}
            },
            Err(why) => {
                if n > 0 {
                    co.violate(prop, "answered_illformed", format!("{}|answered_illformed|{}", prop, why), format!("datagram #{} ({} bytes, {}) from {} was answered", rcv.dgram, rcv.data.len(), why, rcv.src));
                }
            }
        }
    }
    // batches never mix protocols
    for b in &v.batches {
        let protos: std::collections::BTreeSet<_> = b.sends.iter().map(|&s| view::response_proto(&v.sends[s].data)).collect();
        if protos.len() > 1 {
            co.violate(prop, "cross_protocol_batch", format!("{}|cross_protocol_batch", prop), "one signed batch carries both classic and IETF responses".to_string());
        }
    }
    if demand_liveness {
        // nothing may be left undelivered or unread at a live worker socket
        let w = &out.world;
        for s in &w.socks {
            if w.procs[s.proc].sut && s.unread_at_end.unwrap_or(0) > 0 {
                co.violate(prop, "missing_response", format!("{}|stranded_in_queue", prop), format!("{} datagram(s) still unread in worker socket {} at the end of the run (no wake-up)", s.unread_at_end.unwrap_or(0), s.id));
            }
        }
    }
}
