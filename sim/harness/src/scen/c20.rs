//! C20 — the long-term seed never appears in anything the server emits (W + F).

use super::common::*;
use super::*;
use crate::view::View;

fn budget(t: Tier) -> u64 {
    match t {
        Tier::Quick => 3_600,
        Tier::Thorough => 240_000,
    }
}

fn gen(seed: u64, idx: u64, _tier: Tier) -> Plan {
    let mut rng = Rng::derive(seed, "c20");
    let profile = idx % 6;
    let (scenario, mode) = match profile {
        0 | 1 => ("c20.worker_traffic", Mode::W),
        2 | 3 => ("c20.full_system", Mode::F),
        4 => ("c20.failing_startup", Mode::F),
        _ => ("c20.restart", Mode::F),
    };
    let mut plan = Plan::new("C20", scenario, seed);
    let mut s = ServerSpec::basic(mode.clone(), &random_seed_hex(&mut rng));
    s.workers = *rng.pick(&[1i64, 2, 4]);
    s.batch_size = 1 + rng.below(64) as i64;
    s.log_level = Some(rng.below(6) as u8);
    s.fault_pct = *rng.pick(&[0i64, 0, 10, 50]);
    s.fault_written = s.fault_pct > 0;
    if mode == Mode::F {
        s.source = if rng.chance(1, 2) { ConfigSource::File } else { ConfigSource::Env };
        file_layout(&mut rng, &mut s);
        if rng.chance(1, 3) {
            s.client_stats = Some("on".into());
            s.persist_dir = Some("/tmp".into());
            s.status_interval = Some(1);
        }
    }
    if mode == Mode::F && rng.chance(1, 3) {
        // the seed as an operator may write it: upper-case or mixed-case hexadecimal
        let mixed: String = s.seed_hex.chars().map(|c| if rng.chance(1, 2) { c.to_ascii_uppercase() } else { c }).collect();
        s.seed_written = Some(if rng.chance(1, 2) { s.seed_hex.to_uppercase() } else { mixed });
    }
    if mode == Mode::F && s.source == ConfigSource::File && rng.chance(1, 3) {
        plan.params.insert("leftover_env".into(), 1);
    }
    world_knobs(&mut rng, &mut plan, false);
    if rng.chance(1, 2) {
        // error paths log too: socket, TCP and file errors while traffic flows
        let f = &mut plan.world.faults;
        f.send_err = *rng.pick(&[0u32, 50]);
        f.recv_err = *rng.pick(&[0u32, 50]);
        f.accept_err = *rng.pick(&[0u32, 200]);
        f.tcp_write_err = *rng.pick(&[0u32, 200]);
        f.file_create_err = *rng.pick(&[0u32, 300]);
        f.file_write_err = *rng.pick(&[0u32, 300]);
    }
    if scenario == "c20.failing_startup" {
        // configurations that make start-up fail in different ways, with the seed present
        match rng.below(25) {
            23 | 24 => {
                // a file of several YAML documents: an empty or comment-only first one, the
                // settings in the second; or the settings followed by a second document
                let body = crate::exec::config_text(&s);
                let text = match rng.below(4) {
                    0 => format!("---\n# roughenough\n---\n{}", body),
                    1 => format!("---\n---\n{}", body),
                    2 => format!("{}---\nnote: second document\n", body),
                    _ => format!("# first\n---\n{}...\n---\n{}", body, body),
                };
                s.source = ConfigSource::File;
                s.raw_text = Some(text);
            }
            19..=22 => {
                // a hand-written file with a slip of the pen on or next to the seed line that YAML
                // reports as a syntax error (or reads as something other than a string)
                let seed = s.seed_hex.clone();
                let slip = match rng.below(10) {
                    0 => format!(" seed: {}", seed),
                    1 => format!("seed: `{}`", seed),
                    2 => format!("seed: \"{}", seed),
                    3 => format!("seed: {}\n\tbatch_size: 8", seed),
                    4 => format!("seed: {}:", seed),
                    5 => format!("\tseed: {}", seed),
                    6 => format!("seed: {{{}", seed),
                    7 => format!("seed: [{}", seed),
                    8 => format!("seed: {}\nseed: {}", seed, seed),
                    _ => format!("seed: '{}", seed),
                };
                let mut lines = vec!["interface: 127.0.0.1".to_string(), format!("port: {}", s.port), "batch_size: 8".to_string()];
                lines.insert(rng.below(lines.len() as u64 + 1) as usize, slip);
                s.source = ConfigSource::File;
                s.raw_text = Some(lines.join("\n") + "\n");
            }
            16 | 17 | 18 => {
                // a hand-written file: keys in any order, and one string-valued setting given a
                // value YAML does not read as a string (blank, a number, a float, a boolean, a list)
                let mut lines = vec![format!("port: {}", s.port), format!("seed: {}", s.seed_hex), "batch_size: 8".to_string()];
                let odd = *rng.pick(&["", "0", "127.1", "true", "[a, b]", "~"]);
                let key = *rng.pick(&["interface", "interface", "client_stats", "kms_protection", "persistence_directory"]);
                if key != "interface" {
                    lines.push("interface: 127.0.0.1".to_string());
                }
                lines.push(format!("{}: {}", key, odd));
                // shuffle, then make sure the odd line follows the seed in half of the cases
                for i in (1..lines.len()).rev() {
                    let j = rng.below(i as u64 + 1) as usize;
                    lines.swap(i, j);
                }
                if rng.chance(1, 2) {
                    let si = lines.iter().position(|l| l.starts_with("seed:")).unwrap();
                    let oi = lines.iter().position(|l| l.starts_with(&format!("{}:", key))).unwrap();
                    if oi < si {
                        lines.swap(oi, si);
                    }
                    // directly behind the seed
                    let oi = lines.iter().position(|l| l.starts_with(&format!("{}:", key))).unwrap();
                    let l = lines.remove(oi);
                    let si = lines.iter().position(|l| l.starts_with("seed:")).unwrap();
                    lines.insert(si + 1, l);
                }
                s.source = ConfigSource::File;
                s.raw_text = Some(lines.join("\n") + "\n");
            }
            13 | 14 | 15 => {
                // a key-management provider is named while the seed is a plaintext one (and, in
                // the last case, a provider string no build knows): validation refuses to start
                let v = *rng.pick(&["arn:aws:kms:us-east-2:111122223333:key/1234abcd-12ab-34cd-56ef-1234567890ab", "projects/p/locations/global/keyRings/r/cryptoKeys/k", "vault:transit/roughenough"]);
                let k = if s.source == ConfigSource::Env { "ROUGHENOUGH_KMS_PROTECTION" } else { "kms_protection" };
                s.extra.push((k.into(), v.into()));
            }
            9 | 10 => {
                // a seed whose 64 hex digits are all decimal (9), or decimal with one 'e' (10),
                // written bare as the README writes seeds: YAML reads a number, start-up fails
                // (from the environment the same text is an ordinary seed and the server runs)
                let mut digits: Vec<u8> = (0..64).map(|_| b'0' + rng.below(10) as u8).collect();
                digits[0] = b'1' + rng.below(9) as u8;
                if rng.chance(1, 2) {
                    digits[20 + rng.below(30) as usize] = *rng.pick(&[b'e', b'E']);
                }
                s.seed_hex = String::from_utf8(digits).unwrap();
                s.seed_written = Some(s.seed_hex.clone());
            }
            // pasted from a document: typographic quotes, a zero-width space or a byte-order mark in
            // front, a no-break space behind (file and environment alike)
            11 if rng.chance(1, 2) => {
                let h = s.seed_hex.clone();
                s.seed_written = Some(match rng.below(6) {
                    0 => format!("\u{201c}{}\u{201d}", h),
                    1 => format!("\u{200b}{}", h),
                    2 => format!("\u{feff}{}", h),
                    3 => format!("{}\u{a0}", h),
                    4 => format!("\u{ab}{}\u{bb}", h),
                    _ => format!("\u{2018}{}\u{2019}", h),
                });
            }
            11 => s.seed_written = Some(format!("{}zz", s.seed_hex)),
            12 => s.seed_written = Some(format!("{}{}", s.seed_hex, *rng.pick(&["0", "00", "0000"]))),
            6 | 7 => {
                // the health port is held by another program: the listener cannot be bound
                s.health_port = Some(8000);
                plan.step(0, Action::ForeignTcpListen { port: 8000 });
            }
            8 => plan.step(0, Action::ForeignUdpBind { port: s.port as u16 }),
            0 => s.batch_size = 0,
            1 => s.fault_pct = 77,
            2 => s.extra.push(("bogus_key".into(), "1".into())),
            3 => s.port = 0,
            4 => s.interface = "not-an-address".into(),
            _ => {
                s.client_stats = Some("on".into());
                s.persist_dir = None;
            }
        }
        s.fault_written = true;
    }
    plan.server = Some(s);
    let sockets = 1 + rng.below(12) as u32;
    let n = 20 + rng.below(120) as u32;
    let end = storm(&mut rng, &mut plan, n, sockets, 20_000);
    if scenario == "c20.restart" {
        plan.step(end / 2, Action::Restart);
        plan.step(end + 5_000, Action::Signal { sig: 15 });
    }
    sentinels(&mut plan, 2, end + 10_000);
    settle(&mut plan, 1300);
    plan
}

fn check(plan: &Plan, out: &RunOut) -> CheckOut {
    let mut co = CheckOut::default();
    let v = View::build(out);
    let w = &out.world;
    let logs = w.history.iter().filter(|r| matches!(r.ev, dsim::Ev::Log { .. })).count();
    co.nontrivial = !v.sends.is_empty() || logs > 0 || w.procs.iter().any(|p| p.sut && !p.stderr.is_empty());
    // this profile uses random seeds, so the scan is always meaningful
    monitor_leak(&mut co, out);
    if logs > 0 {
        co.probe("log_records_scanned");
    }
    if w.procs.iter().any(|p| p.sut && p.exit.map(|c| c != 0).unwrap_or(false)) {
        co.probe("failed_startup_or_crash_scanned");
    }
    if w.procs.iter().any(|p| p.sut && !p.stderr.is_empty()) {
        co.probe("stderr_scanned");
    }
    co.count("datagrams_scanned", v.sends.len() as u64);
    co.count("log_records_scanned", logs as u64);
    let spec = plan.server.as_ref().unwrap();
    co.sample = Some(serde_json::json!({
        "scenario": plan.scenario, "seed": plan.seed, "log_level": spec.log_level, "source": format!("{:?}", spec.source), "fault_percentage": spec.fault_pct,
        "datagrams_scanned": v.sends.len(), "log_records_scanned": logs,
        "server_exit_codes": w.procs.iter().filter(|p| p.sut).map(|p| p.exit).collect::<Vec<_>>(),
        "needles": needles(&out.ctx.seed).len(),
        "verdict": if co.violations.is_empty() { "ok".to_string() } else { co.violations[0].signature.clone() },
    }));
    co
}

pub fn property() -> Property {
    Property {
        id: "C20",
        level: "exploration",
        budget,
        gen,
        check,
        finalize: no_finalize,
        rule: "one evaluation = one simulated execution with a per-run random seed, log level Off..Trace, valid/invalid/greased traffic; W mode (library workers) and F mode (the binary's main() from file or environment, including start-ups that fail validation and a restart plus signal); every datagram sent by a server socket, every log record, every stdout/stderr byte (incl. panic messages), every TCP byte and every file written is scanned for the seed, the clamped private scalar and the unclamped SHA-512 half, each in raw, lower/upper hex and four base64 forms; non-trivial = something was emitted and scanned; distinct = distinct schedule fingerprints",
        assumptions: &["the same monitor runs inside every other W/F check for seeds with enough entropy to make a byte-string match meaningful"],
        real: REAL_F,
        stub: STUB,
    }
}
