//! What a booted `roughenough-server` process looks like from the simulated machine.

use crate::exec::RunOut;
use dsim::{Ev, Ns, ProcId};
use std::collections::BTreeMap;
use std::net::SocketAddr;

#[derive(Debug, Default, Clone)]
pub struct Boot {
    pub proc: ProcId,
    pub exit: Option<i32>,
    pub exit_how: &'static str,
    pub exit_at: Option<Ns>,
    pub udp_binds: Vec<(SocketAddr, bool, bool)>,
    pub tcp_listens: Vec<(SocketAddr, bool)>,
    pub worker_tasks: Vec<(usize, String)>,
    pub live_workers: usize,
    pub reporter_task: bool,
    pub panics: Vec<(String, String, String)>,
    /// display_config values as logged (last one wins per key), per worker thread name
    pub logged: BTreeMap<String, Vec<String>>,
    pub log_lines: Vec<(u8, String)>,
    /// first delay of each status timer, ns
    pub timer_delays: Vec<u64>,
    pub ctrlc_at: Option<u64>,
    pub signal_at: Option<(u64, Ns, bool)>,
    pub stderr: String,
}

pub fn boots(out: &RunOut) -> Vec<Boot> {
    let w = &out.world;
    let mut v = Vec::new();
    for &p in &out.ctx.server_procs {
        let pr = &w.procs[p];
        let mut b = Boot { proc: p, exit: pr.exit, exit_how: pr.exit_how, exit_at: pr.exit_at, stderr: pr.stderr.clone(), ..Default::default() };
        let mut timers_seen: BTreeMap<usize, bool> = BTreeMap::new();
        // thread names are the primary way to tell workers from the reporter; should the names
        // ever change, fall back on behaviour: the reporter is the spawned thread that sleeps
        // or creates files (workers block in poll, they never sleep), every other spawned thread is a worker
        let mut spawned: Vec<(usize, String)> = Vec::new();
        let mut reporter_like: std::collections::BTreeSet<usize> = Default::default();
        for rec in &w.history {
            match (&rec.ev, rec.task) {
                (Ev::TaskSpawn { task, proc, name }, _) if *proc == p && name != "main" => spawned.push((*task, name.clone())),
                (Ev::Sleep { .. }, Some(t)) | (Ev::FileCreate { .. }, Some(t)) if w.tasks[t].proc == p => {
                    reporter_like.insert(t);
                }
                _ => {}
            }
        }
        let names_known = spawned.iter().any(|(_, n)| n.starts_with("worker-"));
        if !names_known {
            for (t, n) in &spawned {
                if reporter_like.contains(t) {
                    b.reporter_task = true;
                } else if w.tasks[*t].proc == p && Some(*t) != w.procs[p].main_task {
                    b.worker_tasks.push((*t, n.clone()));
                }
            }
        }
        for rec in &w.history {
            let tp = rec.task.map(|t| w.tasks[t].proc);
            match &rec.ev {
                Ev::UdpBind { proc, addr, reuse_port, ok, .. } if *proc == p => b.udp_binds.push((*addr, *reuse_port, *ok)),
                Ev::TcpListen { proc, addr, ok, .. } if *proc == p => b.tcp_listens.push((*addr, *ok)),
                Ev::TaskSpawn { task, proc, name } if *proc == p => {
                    if name.starts_with("worker-") {
                        b.worker_tasks.push((*task, name.clone()));
                    }
                    if name == "stats-reporting" {
                        b.reporter_task = true;
                    }
                }
                Ev::Panic { task, proc, msg, loc } if *proc == p => b.panics.push((w.tasks[*task].name.clone(), msg.clone(), loc.clone())),
                Ev::Log { proc, level, msg, .. } if *proc == p => {
                    b.log_lines.push((*level, msg.clone()));
                    if let Some((k, val)) = msg.split_once(':') {
                        let k = k.trim().to_string();
                        if !k.is_empty() && k.len() < 40 {
                            b.logged.entry(k).or_default().push(val.trim().to_string());
                        }
                    }
                }
                Ev::TimerArm { timer, delay_ns, .. } if tp == Some(p) => {
                    if timers_seen.insert(*timer, true).is_none() {
                        b.timer_delays.push(*delay_ns);
                    }
                }
                Ev::CtrlcRegistered { proc } if *proc == p => b.ctrlc_at = Some(rec.seq),
                Ev::Signal { proc, handled, .. } if *proc == p && b.signal_at.is_none() => b.signal_at = Some((rec.seq, rec.t, *handled)),
                _ => {}
            }
        }
        b.live_workers = b.worker_tasks.iter().filter(|(t, _)| w.tasks[*t].state != dsim::TState::Done || matches!(w.tasks[*t].end, Some(dsim::TaskEnd::Killed))).filter(|(t, _)| !matches!(w.tasks[*t].end, Some(dsim::TaskEnd::Panicked(_)) | Some(dsim::TaskEnd::Returned))).count();
        v.push(b);
    }
    v
}

pub fn logged_one<'a>(b: &'a Boot, key: &str) -> Option<&'a str> {
    b.logged.get(key).and_then(|v| v.last()).map(|s| s.as_str())
}
