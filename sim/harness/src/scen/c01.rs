//! C01 — the client never reports an unauthentic response as verified (mode C).

use super::c03::{client_args, pick_midp_secs};
use super::clientside::*;
use super::common::*;
use super::*;
use crate::exec::REGIONS;
use refimpl as r;

fn budget(t: Tier) -> u64 {
    match t {
        Tier::Quick => 17_000,
        Tier::Thorough => 800_000,
    }
}

pub fn random_forgery(rng: &mut Rng, n_prev: u32) -> Forgery {
    match rng.below(31) {
        30 => Forgery::RaggedPath(*rng.pick(&[4u32, 8, 36, 60, 68, 100, 132])),
        27 => Forgery::LooseRoot,
        28 | 29 => Forgery::ShadowTag { tag: rng.pick(&["ROOT", "MIDP", "RADI", "PUBK", "MINT", "MAXT"]).to_string(), seed: rng.next_u64() },
        23 => Forgery::ResignedRootPrefixKept(*rng.pick(&[1u32, 4, 8, 16, 31, 32, 63])),
        24 => Forgery::ResignedFillRoot(*rng.pick(&[0u8, 0xff, 0x5a])),
        25 | 26 => Forgery::Fill { region: rng.pick(&["SIG", "CERT.SIG", "DELE.PUBK", "SREP.ROOT", "PATH", "NONC", "INDX"]).to_string(), byte: *rng.pick(&[0u8, 0, 0xff]) },
        0..=4 => Forgery::FlipBit { region: REGIONS[rng.below(REGIONS.len() as u64) as usize].to_string(), bit: rng.below(512) as u32 },
        5 | 6 => Forgery::Rewrite { region: REGIONS[rng.below(REGIONS.len() as u64) as usize].to_string(), seed: rng.next_u64() },
        7 => Forgery::OtherLongTermKey(rng.next_u64()),
        8 => Forgery::OtherOnlineKey(rng.next_u64()),
        9 => Forgery::CrossProtocol,
        10 => Forgery::WrongDeleContext,
        11 => Forgery::SpliceFrom(rng.below(n_prev.max(1) as u64) as u32),
        12 => Forgery::ReplayEarlier(rng.below(n_prev.max(1) as u64) as u32),
        13 => Forgery::Truncate(4 * rng.below(200) as u32),
        14 => Forgery::Mutate { count: 1 + rng.below(3) as u32, seed: rng.next_u64() },
        15 => Forgery::MidpointOutsideWindow { before: rng.chance(1, 2) },
        16 => Forgery::WrongLeaf,
        17 => Forgery::WrongIndex(rng.below(64) as u32),
        18 => {
            if rng.chance(1, 2) {
                Forgery::PathExtra
            } else {
                Forgery::PathShort
            }
        }
        19 => {
            if rng.chance(1, 2) {
                Forgery::Drop
            } else {
                Forgery::Duplicate
            }
        }
        20 | 21 => Forgery::ResignedShortRoot(*rng.pick(&[0u32, 0, 4, 16, 28, 32, 60])),
        _ => Forgery::ResignedWrongRoot(rng.next_u64()),
    }
}

/// (region, number of bits) of an honest response at path depth 2, per protocol: the space of
/// single-bit forgeries that is enumerated completely
pub fn bit_regions(proto: P) -> Vec<(&'static str, u32)> {
    match proto {
        P::Classic => vec![("SIG", 512), ("PATH", 1024), ("INDX", 32), ("SREP.MIDP", 64), ("SREP.RADI", 32), ("SREP.ROOT", 512), ("CERT.SIG", 512), ("DELE.PUBK", 256), ("DELE.MINT", 64), ("DELE.MAXT", 64)],
        P::Ietf => vec![("SIG", 512), ("PATH", 512), ("INDX", 32), ("SREP.MIDP", 64), ("SREP.RADI", 32), ("SREP.ROOT", 256), ("SREP.VER", 32), ("CERT.SIG", 512), ("DELE.PUBK", 256), ("DELE.MINT", 64), ("DELE.MAXT", 64)],
    }
}

pub fn enumeration_size() -> u64 {
    [P::Classic, P::Ietf].iter().map(|p| bit_regions(*p).iter().map(|r| r.1 as u64).sum::<u64>()).sum()
}

/// the k-th single-bit forgery: (protocol, region, bit)
pub fn nth_bit_forgery(mut k: u64) -> (P, &'static str, u32) {
    for proto in [P::Classic, P::Ietf] {
        for (region, bits) in bit_regions(proto) {
            if k < bits as u64 {
                return (proto, region, k as u32);
            }
            k -= bits as u64;
        }
    }
    (P::Classic, "SIG", 0)
}

fn gen_enumeration(seed: u64, k: u64) -> Plan {
    let mut rng = Rng::derive(seed, "c01-enum");
    let mut plan = Plan::new("C01", "c01.single_bit_enumeration", seed);
    world_knobs(&mut rng, &mut plan, false);
    let (proto, region, bit) = nth_bit_forgery(k);
    plan.params.insert("enum_k".into(), k as i64);
    let port = 4000 + rng.below(1000) as u16;
    let slot = SlotSpec { index: rng.below(4) as u32, depth: 2, midp_secs: pick_midp_secs(&mut rng), midp_sub_us: rng.below(1_000_000) as u32, forgeries: vec![Forgery::FlipBit { region: region.to_string(), bit }], sibling_seed: rng.next_u64(), delay_us: 0, window: (rng.below(5)) as u8, no_nonc: rng.chance(1, 4) };
    let spec = RefServerSpec { port, long_seed: rng.next_u64(), online_seed: rng.next_u64(), slots: vec![slot] };
    let pk = {
        let mut s = [0u8; 32];
        Rng::derive(spec.long_seed, "ref-long").fill(&mut s);
        r::pubkey_from_seed(&s)
    };
    plan.step(0, Action::StartRefServer(spec));
    plan.step(1000, Action::RunClient { argv: client_args(&mut rng, port, proto, Some(&pk), 1, 2) });
    plan.world.horizon_ms = 2_700;
    plan
}

fn gen(seed: u64, idx: u64, _tier: Tier) -> Plan {
    // the single-bit forgery space is enumerated completely first; the rest of the budget samples
    // the richer operators
    if idx < enumeration_size() {
        return gen_enumeration(seed, idx);
    }
    let mut rng = Rng::derive(seed, "c01");
    let two_runs = idx % 4 == 3;
    let mut plan = Plan::new("C01", if two_runs { "c01.byzantine_two_runs" } else { "c01.byzantine" }, seed);
    world_knobs(&mut rng, &mut plan, false);
    let proto = if rng.chance(1, 2) { P::Ietf } else { P::Classic };
    let n1 = 1 + rng.below(8) as u32;
    let n2 = if two_runs { 1 + rng.below(4) as u32 } else { 0 };
    let port = 4000 + rng.below(1000) as u16;
    let mut slots = Vec::new();
    for k in 0..(n1 + n2) {
        let depth = rng.below(7) as u32;
        let mut forgeries = Vec::new();
        let forge_this = if k < n1 { rng.chance(1, 2) } else { true };
        if forge_this {
            let count = if rng.chance(1, 5) { 2 + rng.below(2) } else { 1 };
            for _ in 0..count {
                let f = if k >= n1 && rng.chance(1, 2) { Forgery::ReplayEarlier(rng.below(n1 as u64) as u32) } else { random_forgery(&mut rng, k) };
                forgeries.push(f);
            }
        }
        slots.push(SlotSpec { index: rng.below(64) as u32, depth, midp_secs: pick_midp_secs(&mut rng), midp_sub_us: rng.below(1_000_000) as u32, forgeries, sibling_seed: rng.next_u64(), delay_us: rng.below(500), window: *rng.pick(&[0u8, 0, 0, 1, 2, 3, 4]), no_nonc: rng.chance(1, 4) });
    }
    let spec = RefServerSpec { port, long_seed: rng.next_u64(), online_seed: rng.next_u64(), slots };
    let pk = {
        let mut s = [0u8; 32];
        Rng::derive(spec.long_seed, "ref-long").fill(&mut s);
        r::pubkey_from_seed(&s)
    };
    plan.step(0, Action::StartRefServer(spec));
    let key = if rng.below(10) == 0 { None } else { Some(&pk[..]) };
    let mut argv1 = client_args(&mut rng, port, proto, key, n1, 2);
    if rng.chance(1, 10) {
        // the key in a spelling the client does not document: whatever it makes of it (refusing to
        // start is fine), it must not go on to present unauthentic responses as the time
        if let Some(i) = argv1.iter().position(|a| a == "-k") {
            let hex = r::hex_lower(&pk);
            let b64 = r::base64(&pk, false, true);
            argv1[i + 1] = match rng.below(10) {
                0 => b64.trim_end_matches('=').to_string(),
                1 => format!("{}=", b64),
                2 => format!("0x{}", hex),
                3 => hex.as_bytes().chunks(2).map(|c| String::from_utf8_lossy(c).to_string()).collect::<Vec<_>>().join(":"),
                4 => format!("{}\n{}", &hex[..32], &hex[32..]),
                5 => String::new(),
                6 => format!("\"{}\"", hex),
                7 => format!(" {} ", hex),
                8 => r::base64(&pk, true, false),
                _ => hex[..62].to_string(),
            };
            plan.params.insert("odd_key_spelling".into(), 1);
        }
    }
    plan.step(1000, Action::RunClient { argv: argv1 });
    if two_runs {
        // after the first incarnation is certainly over (its timeout is 2 s per socket)
        plan.step(1000 + (n1 as u64 + 1) * 2_100_000, Action::RunClient { argv: client_args(&mut rng, port, proto, key, n2, 2) });
    }
    plan.world.horizon_ms = 1 + (n1 as u64 + n2 as u64 + 2) * 2_100 + 500;
    plan
}

fn check(plan: &Plan, out: &RunOut) -> CheckOut {
    let mut co = CheckOut::default();
    let runs = client_runs(out);
    let pinned = &out.ctx.ref_long_pk;
    let mut all_nonces: Vec<Vec<u8>> = Vec::new();
    for cr in &runs {
        let proto = proto_of(&cr.argv);
        let key_given = has_flag(&cr.argv, "-k");
        co.nontrivial = co.nontrivial || !cr.received.is_empty();
        // freshness: every request's nonce is bytes handed out by the entropy seam, never reused
        for q in &cr.requests {
            if let Some(n) = nonce_of_request(proto, q) {
                if !cr.entropy.iter().any(|e| **e == n) {
                    co.violate("C01", "nonce_not_fresh", "C01|nonce_not_from_entropy".into(), "a request's NONC is not a value drawn from the system entropy source for it".into());
                }
                if all_nonces.contains(&n) {
                    co.violate("C01", "nonce_reused", "C01|nonce_reused".into(), "two requests of this execution carry the same nonce".into());
                }
                all_nonces.push(n);
            }
        }
        // reference verdict per processed response
        let mut first_reject: Option<(usize, &'static str)> = None;
        // the statement binds the client only when a key was given; without one the sole
        // obligation is that nothing is ever reported as verified
        let judged: &[dsim::Bytes] = if key_given { &cr.received } else { &[] };
        for (i, resp) in judged.iter().enumerate() {
            let req = match cr.requests.get(i) {
                Some(q) => q,
                None => break,
            };
            let nonce = nonce_of_request(proto, req).unwrap_or_default();
            let verdict = r::verify_response(resp, &r::VerifyOpts { proto, request: req, nonce: &nonce, long_term_pk: if key_given { Some(pinned) } else { None }, require_nonce_echo: false, lenient: true });
            if let Err(rej) = verdict {
                first_reject = Some((i, rej.0));
                break;
            }
        }
        let lines = time_lines(&cr.stdout);
        let yes = cr.stderr.matches("verified=Yes").count() + cr.stdout.matches("\"verified\": true").count();
        match first_reject {
            Some((j, why)) => {
                co.probe("forged_response_processed");
                if plan.scenario == "c01.single_bit_enumeration" {
                    let (_, region, _) = nth_bit_forgery(plan.p("enum_k") as u64);
                    co.probe(&format!("single_bit_rejected:{}", region));
                }
                if lines.len() > j {
                    co.violate(
                        "C01",
                        "client_accepted_unauthentic",
                        format!("C01|client_accepted_unauthentic|key={}|{}", if key_given { "given" } else { "none" }, crate::scen::common::class_of_reject(why)),
                        format!("client {:?}: response {} is rejected by the reference verifier ({}), yet the client printed {} time line(s): {:?}", cr.argv, j, why, lines.len(), lines),
                    );
                } else if cr.exit == Some(0) && !cr.timed_out {
                    co.violate("C01", "client_exit_zero_on_unauthentic", "C01|exit_zero_on_unauthentic".into(), format!("response {} is unauthentic ({}) and no time was printed for it, but the client exited 0", j, why));
                }
            }
            None => {
                if cr.received.len() == cr.requests.len() && !cr.received.is_empty() {
                    co.probe("all_responses_authentic");
                }
                if plan.scenario == "c01.single_bit_enumeration" && key_given && !cr.received.is_empty() {
                    // a flipped bit the protocol does not look at (INDX bits above the path depth)
                    let (_, region, _) = nth_bit_forgery(plan.p("enum_k") as u64);
                    co.probe(&format!("single_bit_immaterial:{}", region));
                }
            }
        }
        if !key_given && yes > 0 {
            co.violate("C01", "client_reported_verified_without_key", "C01|verified_without_key".into(), "verified=Yes reported although no key was given".into());
        }
        if cr.timed_out {
            co.probe("timeout_path");
        }
        if cr.exit.map(|c| c != 0).unwrap_or(false) {
            co.probe("client_failed_closed");
        }
    }
    if runs.len() >= 2 {
        co.probe("second_incarnation");
    }
    co.count("client_runs", runs.len() as u64);
    co.count("responses_processed", runs.iter().map(|c| c.received.len() as u64).sum());
    let forg: Vec<String> = plan
        .steps
        .iter()
        .filter_map(|s| match &s.act {
            Action::StartRefServer(spec) => Some(spec.slots.iter().map(|x| format!("{:?}", x.forgeries)).collect::<Vec<_>>().join(" | ")),
            _ => None,
        })
        .collect();
    co.sample = Some(serde_json::json!({
        "scenario": plan.scenario, "seed": plan.seed, "forgeries_per_request": forg,
        "client_argv": runs.first().map(|c| c.argv.clone()), "exit": runs.iter().map(|c| c.exit).collect::<Vec<_>>(),
        "time_lines": runs.iter().map(|c| time_lines(&c.stdout).len()).collect::<Vec<_>>(),
        "verdict": if co.violations.is_empty() { "ok".to_string() } else { co.violations[0].signature.clone() },
    }));
    co
}

pub fn property() -> Property {
    Property {
        id: "C01",
        level: "exploration",
        budget,
        gen,
        check,
        finalize: no_finalize,
        rule: "the space of single-bit forgeries of an honest response at path depth 2 (every bit of SIG, PATH, INDX, SREP.{MIDP,RADI,ROOT,VER}, CERT.SIG, DELE.{PUBK,MINT,MAXT}, both protocols: 5408 forgeries) is enumerated completely, one forgery per execution; the remaining evaluations sample: one evaluation = one simulated execution of the real client main() (one or two incarnations, -n 1..8, both protocols, key as hex or base64) against a byzantine reference responder applying 1-3 seeded forgery operators per response (bit flips / rewrites of SIG, PATH, INDX, SREP.{MIDP,RADI,ROOT,VER}, CERT.SIG, DELE.{PUBK,MINT,MAXT}; re-signing by other long-term or online keys; cross-protocol contexts; splices; replays within and across runs; truncation; random mutation; midpoint outside a genuine narrow window; wrong leaf/index; path longer/shorter; drop; duplicate); non-trivial = the client received a response; distinct = distinct schedule fingerprints",
        assumptions: &["soundness direction only: the client succeeding implies the lenient reference verifier (signature chain under the protocol's contexts, delegation window, inclusion proof for the client's own request) accepts", "timeouts are not violations"],
        real: REAL_C,
        stub: STUB,
    }
}
