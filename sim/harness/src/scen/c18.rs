//! C18 — under concurrent multi-worker load every request is answered once, validly (mode F).

use super::common::*;
use super::fmode::*;
use super::*;
use crate::view::View;
use refimpl as r;

fn budget(t: Tier) -> u64 {
    match t {
        Tier::Quick => 1_500,
        Tier::Thorough => 150_000,
    }
}

fn gen(seed: u64, idx: u64, _tier: Tier) -> Plan {
    let mut rng = Rng::derive(seed, "c18");
    let mut plan = Plan::new("C18", "c18.closed_loop_load", seed);
    let mut s = ServerSpec::basic(Mode::F, &random_seed_hex(&mut rng));
    s.workers = [1i64, 2, 4, 8, 16][(idx % 5) as usize];
    s.batch_size = *rng.pick(&[1i64, 4, 64, 64]);
    s.source = if rng.chance(1, 2) { ConfigSource::File } else { ConfigSource::Env };
    file_layout(&mut rng, &mut s);
    if rng.chance(1, 3) {
        s.client_stats = Some("on".into());
        s.persist_dir = Some("/tmp".into());
        s.status_interval = Some(*rng.pick(&[1i64, 10]));
    }
    // one run in four (independent of the worker count): the embedding program has selected a verbose log level and / or deliberate
    // response errors are configured (replies may then fail verification by design; everything
    // else — one reply per request, to its sender, no worker lost — still holds)
    if (idx / 5) % 4 == 3 {
        s.log_level = Some(*rng.pick(&[4u8, 5, 3]));
        s.fault_pct = *rng.pick(&[0i64, 10, 50]);
        s.fault_written = s.fault_pct > 0;
    }
    world_knobs(&mut rng, &mut plan, idx % 3 == 2);
    // drops on the path would make a closed-loop client wait for its timeout: the path is kept
    // loss-free here, schedule / distribution / delay faults stay
    plan.world.faults.c2s_drop = 0;
    plan.world.faults.s2c_drop = 0;
    plan.world.faults.c2s_phantom = 0;
    plan.world.faults.c2s_truncate = 0;
    if idx % 3 == 2 {
        // a response that cannot be sent (one client's loss) must not cost the clients queued
        // behind it in the batch theirs
        plan.world.faults.send_err = *rng.pick(&[0u32, 30, 100]);
    }
    plan.world.rcv_cap = 4096;
    plan.server = Some(s);
    let clients = 1 + rng.below(64) as u32;
    let rounds = 1 + rng.below(5) as u32;
    for c in 0..clients {
        let protos = match rng.below(3) {
            0 => vec![P::Classic],
            1 => vec![P::Ietf],
            _ => vec![P::Classic, P::Ietf],
        };
        plan.step(20_000 + rng.below(300), Action::ClosedLoop { sock: c, protos, count: rounds, think_us: *rng.pick(&[0u64, 0, 10, 500]), timeout_ms: 1000 });
    }
    // faults (delays, duplicates, spurious polls, stalled tasks) flow during start-up and, in some
    // runs, during the first part of the load; liveness is judged for requests sent afterwards
    plan.world.faults_until_ms = *rng.pick(&[25u64, 25, 400, 1500]);
    {
        // (closed-loop clients run on after their start step: spread the clock steps over the load)
        let horizon_us = (20 + plan.world.faults_until_ms + rounds as u64 * 1100) * 1000;
        if rng.chance(1, 8) {
            // a clock that is being disciplined: many small steps back while the load runs, so that
            // some fall between two clock readings of one batch
            let t0 = 25_000 + rng.below(horizon_us / 2);
            let gap = *rng.pick(&[50u64, 300, 2_000]);
            for k in 0..200u64 {
                plan.step(t0 + k * gap, Action::WallStepMs(*rng.pick(&[-250i64, -1, -1000])));
            }
        } else if rng.chance(1, 4) {
            for _ in 0..1 + rng.below(2) {
                plan.step(25_000 + rng.below(horizon_us - 25_000), Action::WallStepMs(*rng.pick(&[-3_600_000i64, -61_000, -1000, -1, 1, 999, 1000, 61_000, 86_400_000])));
            }
        }
    }
    plan.world.horizon_ms = 20 + plan.world.faults_until_ms + rounds as u64 * 1100 + 300;
    plan
}

fn check(plan: &Plan, out: &RunOut) -> CheckOut {
    let mut co = CheckOut::default();
    let v = View::build(out);
    let spec = plan.server.as_ref().unwrap();
    co.nontrivial = !v.sends.is_empty();
    monitor_leak(&mut co, out);
    check_no_panic(&mut co, "C18", out);
    if spec.fault_pct == 0 {
        check_validity(&mut co, "C18", &v);
    } else {
        co.probe("grease_profile");
    }
    check_exactly_once(&mut co, "C18", &v, out, true);
    let bs = boots(out);
    if let Some(b) = bs.first() {
        if b.exit.is_some() {
            co.violate("C18", "server_exited", format!("C18|server_exited|code={:?}", b.exit), format!("the server process ended under load with status {:?}", b.exit));
        } else if b.live_workers < spec.workers as usize {
            co.violate("C18", "worker_died", "C18|worker_died".into(), format!("{} of {} workers alive at the end of the run", b.live_workers, spec.workers));
        }
    }
    // client side: every request got exactly one response, verified for that very request under the
    // single long-term key, within one simulated second
    let pk = &out.ctx.long_pk;
    let mut total = 0u64;
    let w = &out.world;
    let faults_until = plan.world.faults_until_ms * dsim::MS;
    // datagrams that never reached a server socket (sent before the server bound its port, or lost
    // to an injected path fault) say nothing about the server
    let lost: std::collections::BTreeSet<u64> = w.history.iter().filter_map(|r| match &r.ev { dsim::Ev::Lost { dgram, .. } => Some(*dgram), _ => None }).collect();
    let mut sent_ids: BTreeMap<(usize, Vec<u8>), u64> = BTreeMap::new();
    for rec in &w.history {
        if let dsim::Ev::UdpSend { sock, dgram, data, .. } = &rec.ev {
            if !w.procs[w.socks[*sock].proc].sut {
                sent_ids.insert((*sock, data.to_vec()), *dgram);
            }
        }
    }
    for cl in &out.ctx.closed_loop {
        let sid = out.ctx.socks.get(&cl.sock).copied().unwrap_or(usize::MAX);
        for &i in &cl.timed_out_requests {
            let (req, t_sent) = &cl.sent[i];
            let was_lost = sent_ids.get(&(sid, req.clone())).map(|d| lost.contains(d)).unwrap_or(false);
            if was_lost {
                co.probe("request_lost_before_reaching_the_server");
            } else if *t_sent >= faults_until {
                co.violate("C18", "missing_response", "C18|client_timeout".into(), format!("closed-loop client {} request {} (sent at {:.6}s, after faults stopped) waited a full simulated second without an answer", cl.sock, i, *t_sent as f64 / 1e9));
            }
        }
        // got[k] answers the k-th request that did not time out
        let answered: Vec<usize> = (0..cl.sent.len()).filter(|i| !cl.timed_out_requests.contains(i)).collect();
        for (k, (resp, t_got)) in cl.got.iter().enumerate() {
            total += 1;
            let i = match answered.get(k) {
                Some(i) => *i,
                None => break,
            };
            let (req, t_sent) = &cl.sent[i];
            let info = match r::classify_request(req, &out.ctx.srv) {
                Ok(i) => i,
                Err(_) => continue,
            };
            let ok = r::verify_response(resp, &r::VerifyOpts { proto: info.proto, request: req, nonce: &info.nonce, long_term_pk: Some(pk), require_nonce_echo: true, lenient: false });
            if spec.fault_pct > 0 {
                // a deliberately broken reply is still the one reply this request gets
            } else if let Err(e) = ok {
                co.violate("C18", "client_got_invalid", format!("C18|client_got_invalid|{}", class_of_reject(e.0)), format!("client {} request {}: the response it received does not verify for it: {}", cl.sock, i, e.0));
            }
            if *t_sent >= faults_until && t_got.saturating_sub(*t_sent) > dsim::SEC {
                co.violate("C18", "late_response", "C18|late_response".into(), format!("client {} request {} answered after {} ms", cl.sock, i, (t_got - t_sent) / dsim::MS));
            }
        }
        if cl.strays > 0 {
            co.probe("stray_duplicate_discarded_by_client");
            if plan.world.faults.s2c_dup == 0 && plan.world.faults.c2s_dup == 0 {
                co.violate("C18", "duplicate_response", "C18|client_received_stray".into(), format!("client {} received {} response(s) that answer none of its outstanding requests although nothing duplicates datagrams", cl.sock, cl.strays));
            }
        }
    }
    // no stray datagrams left in client sockets (duplicates)
    for cl in &out.ctx.closed_loop {
        if let Some(&sid) = out.ctx.socks.get(&cl.sock) {
            let extra = w.socks[sid].unread_at_end.unwrap_or(0);
            if extra > 0 && plan.world.faults.s2c_dup == 0 && plan.world.faults.c2s_dup == 0 {
                co.violate("C18", "duplicate_response", "C18|client_received_extra".into(), format!("client {} has {} unread extra datagram(s)", cl.sock, extra));
            }
        }
    }
    let workers_used: std::collections::BTreeSet<usize> = v.sends.iter().map(|s| s.task).collect();
    if workers_used.len() as i64 == spec.workers && spec.workers > 1 {
        co.probe("every_worker_answered");
    }
    if spec.workers == 16 {
        co.probe("workers_16");
    }
    if v.batches.iter().any(|b| b.sends.len() > 1) {
        co.probe("batch_ge_2");
    }
    co.count("client_round_trips", total);
    co.sample = Some(serde_json::json!({
        "scenario": plan.scenario, "seed": plan.seed, "workers": spec.workers, "clients": out.ctx.closed_loop.len(), "round_trips": total,
        "strategy": format!("{:?}", plan.world.strategy), "distribution": if plan.world.flow_hash.is_some() { "flow hash" } else { "arbitrary" }, "cost_scale": plan.world.cost_scale,
        "workers_that_answered": workers_used.len(), "faults_fired": out.world.fault_fired,
        "verdict": if co.violations.is_empty() { "ok".to_string() } else { co.violations[0].signature.clone() },
    }));
    co
}

pub fn property() -> Property {
    Property {
        id: "C18",
        level: "exploration",
        budget,
        gen,
        check,
        finalize: no_finalize,
        rule: "one evaluation = one simulated execution of the real main() with num_workers in {1,2,4,8,16} on one REUSEPORT group and 1-64 closed-loop reference clients (tasks) doing 1-5 rounds of mixed-protocol requests (three in four as the project's client sends them, one in four a boundary variant: 1028/1496/1500 bytes, SRV present, several offered versions), under a seeded schedule strategy (uniform / sticky / starve-one), kernel distribution (flow hash or arbitrary per datagram), service-time factor 0.1x-20x and, in a third of the runs, path delay/duplication, spurious polls and postponed (stalled) worker tasks during start-up; non-trivial = at least one response sent; distinct = distinct schedule fingerprints",
        assumptions: &["path loss is not injected here (a closed-loop client would only wait out its timeout)", "bounded liveness: every request is answered within 1 simulated second"],
        real: REAL_F,
        stub: STUB,
    }
}
