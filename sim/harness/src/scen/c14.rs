//! C14 — envelope-encrypted seed: round-trips, detects tampering, leaks nothing (mode E).
//! No scheduler: the two seams are the existing `KmsProvider` trait and the stored blob. Fault
//! positions are enumerated completely per sampled (plaintext length, provider, wrapped length).

use super::*;
use refimpl as r;
use roughenough::kms::{EnvelopeEncryption, KmsError, KmsProvider};
use std::cell::RefCell;
use std::collections::HashMap;
use std::panic::{catch_unwind, AssertUnwindSafe};

fn budget(t: Tier) -> u64 {
    match t {
        Tier::Quick => 396 * 8,
        Tier::Thorough => 12_672,
    }
}

// ---- providers, non-malleable by construction ------------------------------------------------

/// Unwraps only byte-exact blobs it issued.
struct Registry {
    wrapped_len: usize,
    issued: RefCell<HashMap<Vec<u8>, Vec<u8>>>,
    rng: RefCell<Rng>,
}

impl KmsProvider for Registry {
    fn encrypt_dek(&self, dek: &Vec<u8>) -> Result<Vec<u8>, KmsError> {
        let mut w = vec![0u8; self.wrapped_len];
        self.rng.borrow_mut().fill(&mut w);
        self.issued.borrow_mut().insert(w.clone(), dek.clone());
        Ok(w)
    }
    fn decrypt_dek(&self, wrapped: &Vec<u8>) -> Result<Vec<u8>, KmsError> {
        self.issued.borrow().get(wrapped).cloned().ok_or_else(|| KmsError::OperationFailed("unknown wrapped key".into()))
    }
}

/// AES-256-GCM wrapping under a master key (nonce || ciphertext || tag), padded with
/// authenticated filler to the requested wrapped length.
struct AeadWrap {
    master: [u8; 32],
    wrapped_len: usize,
    rng: RefCell<Rng>,
}

impl KmsProvider for AeadWrap {
    fn encrypt_dek(&self, dek: &Vec<u8>) -> Result<Vec<u8>, KmsError> {
        use ring::aead::*;
        let key = LessSafeKey::new(UnboundKey::new(&AES_256_GCM, &self.master).unwrap());
        let mut nonce = [0u8; 12];
        self.rng.borrow_mut().fill(&mut nonce);
        let filler = self.wrapped_len.saturating_sub(12 + dek.len() + 16);
        let mut buf = dek.clone();
        buf.extend(std::iter::repeat(0xA5).take(filler));
        key.seal_in_place_append_tag(Nonce::assume_unique_for_key(nonce), Aad::from(b"wrap"), &mut buf).unwrap();
        let mut out = nonce.to_vec();
        out.extend_from_slice(&buf);
        Ok(out)
    }
    fn decrypt_dek(&self, wrapped: &Vec<u8>) -> Result<Vec<u8>, KmsError> {
        use ring::aead::*;
        if wrapped.len() < 12 + 16 {
            return Err(KmsError::InvalidData("short".into()));
        }
        let key = LessSafeKey::new(UnboundKey::new(&AES_256_GCM, &self.master).unwrap());
        let mut nonce = [0u8; 12];
        nonce.copy_from_slice(&wrapped[..12]);
        let mut buf = wrapped[12..].to_vec();
        let pt = key.open_in_place(Nonce::assume_unique_for_key(nonce), Aad::from(b"wrap"), &mut buf).map_err(|_| KmsError::OperationFailed("unwrap failed".into()))?;
        Ok(pt[..32.min(pt.len())].to_vec())
    }
}

/// XOR with a pad — malleable, used for the fault-free round trip only.
struct XorWrap {
    pad: u8,
}

impl KmsProvider for XorWrap {
    fn encrypt_dek(&self, dek: &Vec<u8>) -> Result<Vec<u8>, KmsError> {
        Ok(dek.iter().map(|b| b ^ self.pad).collect())
    }
    fn decrypt_dek(&self, w: &Vec<u8>) -> Result<Vec<u8>, KmsError> {
        Ok(w.iter().map(|b| b ^ self.pad).collect())
    }
}

#[derive(Clone, Debug, PartialEq)]
enum DecFault {
    None,
    Error,
    OtherKey,
    KeyLen(usize),
}

#[derive(Clone, Debug, PartialEq)]
enum EncFault {
    None,
    Error,
    Empty,
    Huge,
}

struct Faulty<'a> {
    inner: &'a dyn KmsProvider,
    dec: DecFault,
    enc: EncFault,
}

impl KmsProvider for Faulty<'_> {
    fn encrypt_dek(&self, dek: &Vec<u8>) -> Result<Vec<u8>, KmsError> {
        match self.enc {
            EncFault::None => self.inner.encrypt_dek(dek),
            EncFault::Error => Err(KmsError::OperationFailed("injected: KMS unavailable".into())),
            EncFault::Empty => Ok(vec![]),
            // longer than the 16-bit length field can express
            EncFault::Huge => Ok(vec![0x42; 65_536 + 40]),
        }
    }
    fn decrypt_dek(&self, w: &Vec<u8>) -> Result<Vec<u8>, KmsError> {
        match &self.dec {
            DecFault::None => self.inner.decrypt_dek(w),
            DecFault::Error => Err(KmsError::OperationFailed("injected: KMS unavailable".into())),
            DecFault::OtherKey => self.inner.decrypt_dek(w).map(|mut k| {
                k[0] ^= 0x80;
                k
            }),
            DecFault::KeyLen(n) => self.inner.decrypt_dek(w).map(|mut k| {
                k.resize(*n, 7);
                k
            }),
        }
    }
}

fn gen(seed: u64, idx: u64, tier: Tier) -> Plan {
    let mut rng = Rng::derive(seed, "c14");
    let mut plan = Plan::new("C14", "c14.envelope_fault_enumeration", seed);
    // the three dimensions are taken from independent digits of idx: wrapped-length class idx % 6,
    // provider (idx / 6) % 2, plaintext length (idx / 12) % 33
    plan.params.insert("plaintext_len".into(), 32 + ((idx / 12) % 33) as i64);
    plan.params.insert("provider".into(), ((idx / 6) % 2) as i64);
    // what the plaintext looks like: random bytes, or text that is also valid in another encoding
    plan.params.insert("plaintext_kind".into(), ((idx / 396) % 8) as i64);
    let wl = match idx % 6 {
        0 => 16,
        1 => 32,
        2 => 60,
        3 => 1024,
        _ => 16 + rng.below(1009) as i64,
    };
    // the AEAD wrapper cannot produce fewer than 60 bytes
    plan.params.insert("wrapped_len".into(), if (idx / 6) % 2 == 1 { wl.max(60) } else { wl });
    plan.params.insert("all_byte_values".into(), (tier == Tier::Thorough) as i64);
    plan.world.horizon_ms = 1;
    plan
}

enum Outcome {
    OkSame,
    OkOther(Vec<u8>),
    Err,
    Panic,
}

fn try_decrypt(kms: &dyn KmsProvider, blob: &[u8], seed: &[u8]) -> Outcome {
    match catch_unwind(AssertUnwindSafe(|| EnvelopeEncryption::decrypt_seed(kms, blob))) {
        Ok(Ok(p)) if p == seed => Outcome::OkSame,
        Ok(Ok(p)) => Outcome::OkOther(p),
        Ok(Err(_)) => Outcome::Err,
        Err(_) => Outcome::Panic,
    }
}

fn check(plan: &Plan, _out: &RunOut) -> CheckOut {
    let mut co = CheckOut::default();
    let plen = plan.p("plaintext_len") as usize;
    let wlen = plan.p("wrapped_len") as usize;
    let pkind = plan.p("provider");
    let all_values = plan.p("all_byte_values") != 0;
    let mut rng = Rng::derive(plan.seed, "c14-data");
    let mut seed = vec![0u8; plen];
    rng.fill(&mut seed);
    let alphabet: &[u8] = match plan.p("plaintext_kind") {
        1 => b"0123456789abcdef",
        2 => b"0123456789ABCDEFabcdef",
        3 => b"ABCDEFGHIJKLMNOPQRSTUVWXYZabcdefghijklmnopqrstuvwxyz0123456789+/=",
        4 => b"\0",
        5 => b"\xff",
        6 => b" \t\r\n#:'\"-_.~abcxyz",
        7 => b"0123456789",
        _ => b"",
    };
    if !alphabet.is_empty() {
        for b in seed.iter_mut() {
            *b = alphabet[*b as usize % alphabet.len()];
        }
    }
    let reg = Registry { wrapped_len: wlen, issued: RefCell::new(HashMap::new()), rng: RefCell::new(Rng::derive(plan.seed, "registry")) };
    let mut master = [0u8; 32];
    rng.fill(&mut master);
    let aead = AeadWrap { master, wrapped_len: wlen, rng: RefCell::new(Rng::derive(plan.seed, "aead")) };
    let provider: &dyn KmsProvider = if pkind == 0 { &reg } else { &aead };
    let pname = if pkind == 0 { "registry" } else { "aead" };

    // a world only to own the entropy stream: the DEK and the AEAD nonce are logged there
    dsim::install(dsim::World::new(plan.world.to_cfg(), dsim::Tape::replay(vec![])));
    let enc = catch_unwind(AssertUnwindSafe(|| EnvelopeEncryption::encrypt_seed(provider, &seed)));
    let xor_rt = {
        let x = XorWrap { pad: 0x5c };
        EnvelopeEncryption::encrypt_seed(&x, &seed).ok().map(|b| EnvelopeEncryption::decrypt_seed(&x, &b))
    };
    let mut enc_fault_results = Vec::new();
    for ef in [EncFault::Error, EncFault::Empty, EncFault::Huge] {
        let f = Faulty { inner: provider, dec: DecFault::None, enc: ef.clone() };
        let r = catch_unwind(AssertUnwindSafe(|| EnvelopeEncryption::encrypt_seed(&f, &seed).map(|b| (b.clone(), EnvelopeEncryption::decrypt_seed(&f, &b)))));
        enc_fault_results.push((ef, r));
    }
    let world = dsim::take();
    let drawn: Vec<Vec<u8>> = world.history.iter().filter_map(|r| match &r.ev { dsim::Ev::Entropy { bytes, .. } => Some(bytes.to_vec()), _ => None }).collect();

    let sig = |class: &str, kind: &str| format!("C14|{}|{}|provider={}", class, kind, pname);
    let ctxs = format!("plaintext {} bytes, provider {}, wrapped key {} bytes", plen, pname, wlen);
    let mut cases = 0u64;
    let mut distinct = 0u64;
    let blob = match enc {
        Ok(Ok(b)) => b,
        Ok(Err(e)) => {
            co.violate("C14", "envelope_roundtrip_failed", sig("envelope_roundtrip_failed", "encrypt"), format!("{}: encrypt_seed failed: {:?}", ctxs, e));
            return co;
        }
        Err(_) => {
            co.violate("C14", "envelope_panic", sig("envelope_panic", "encrypt"), format!("{}: encrypt_seed panicked", ctxs));
            return co;
        }
    };
    co.nontrivial = true;
    // round trip
    cases += 1;
    distinct += 1;
    match try_decrypt(provider, &blob, &seed) {
        Outcome::OkSame => {}
        Outcome::OkOther(p) => co.violate("C14", "envelope_roundtrip_failed", sig("envelope_roundtrip_failed", "different_plaintext"), format!("{}: decrypt returned {} different bytes", ctxs, p.len())),
        Outcome::Err => co.violate("C14", "envelope_roundtrip_failed", sig("envelope_roundtrip_failed", if wlen < 32 { "wrapped_shorter_than_32" } else { "error" }), format!("{}: decrypting the untouched blob ({} bytes) with the same provider failed", ctxs, blob.len())),
        Outcome::Panic => co.violate("C14", "envelope_panic", sig("envelope_panic", "roundtrip"), format!("{}: decrypt_seed panicked on the untouched blob", ctxs)),
    }
    match xor_rt {
        Some(Ok(p)) if p == seed => {}
        other => co.violate("C14", "envelope_roundtrip_failed", "C14|envelope_roundtrip_failed|xor_provider".into(), format!("round trip through the XOR provider failed: {:?}", other.map(|r| r.map(|p| p.len())))),
    }
    // leaks: the blob contains neither the seed nor the DEK (known from the entropy log)
    cases += 1;
    if r::find_sub(&blob, &seed) {
        co.violate("C14", "envelope_leak", sig("envelope_leak", "seed"), format!("{}: the blob contains the plaintext seed", ctxs));
    }
    let dek = drawn.iter().find(|d| d.len() == 32).cloned().unwrap_or_default();
    if dek.len() == 32 && r::find_sub(&blob, &dek) {
        co.violate("C14", "envelope_leak", sig("envelope_leak", "dek"), format!("{}: the blob contains the unwrapped data key", ctxs));
    }
    if dek.len() != 32 {
        co.violate("C14", "harness", "C14|dek_not_observed".into(), "the data key was not drawn through the entropy seam".into());
    }

    let mut judge = |co: &mut CheckOut, kind: &str, detail: String, kms: &dyn KmsProvider, b: &[u8]| {
        cases += 1;
        distinct += 1;
        match try_decrypt(kms, b, &seed) {
            Outcome::Err => {}
            Outcome::OkSame => co.violate("C14", "envelope_ok_on_fault", sig("envelope_ok_on_fault", kind), format!("{}: {} -> decrypt still returned the seed", ctxs, detail)),
            Outcome::OkOther(p) => co.violate("C14", "envelope_ok_on_fault", sig("envelope_wrong_plaintext_on_fault", kind), format!("{}: {} -> decrypt returned {} bytes of different plaintext", ctxs, detail, p.len())),
            Outcome::Panic => co.violate("C14", "envelope_panic", sig("envelope_panic", kind), format!("{}: {} -> decrypt_seed panicked", ctxs, detail)),
        }
    };
    // every single-bit flip at every position
    for pos in 0..blob.len() {
        for bit in 0..8 {
            let mut b = blob.clone();
            b[pos] ^= 1 << bit;
            judge(&mut co, "bit_flip", format!("bit {} of byte {} flipped", bit, pos), provider, &b);
        }
    }
    // every single-byte change
    for pos in 0..blob.len() {
        let values: Vec<u8> = if all_values { (1..=255u8).collect() } else { vec![0x01, 0x80, 0xff] };
        for d in values {
            let mut b = blob.clone();
            b[pos] = b[pos].wrapping_add(d);
            judge(&mut co, "byte_change", format!("byte {} changed by +{}", pos, d), provider, &b);
        }
    }
    // every truncation length
    for n in 0..blob.len() {
        judge(&mut co, "truncation", format!("truncated to {} of {} bytes", n, blob.len()), provider, &blob[..n]);
    }
    // extensions
    for n in 1..=64usize {
        for fill in [0u8, 0xff, 0x0a, 0x0d, 0x20, 0x3d] {
            let mut b = blob.clone();
            b.extend(std::iter::repeat(fill).take(n));
            judge(&mut co, "extension", format!("extended by {} bytes of {:#x}", n, fill), provider, &b);
        }
    }
    // provider faults on decrypt, alone and combined with one blob fault
    let dec_faults = [DecFault::Error, DecFault::OtherKey, DecFault::KeyLen(0), DecFault::KeyLen(16), DecFault::KeyLen(31), DecFault::KeyLen(33), DecFault::KeyLen(64)];
    for df in &dec_faults {
        let f = Faulty { inner: provider, dec: df.clone(), enc: EncFault::None };
        judge(&mut co, "provider_decrypt_fault", format!("provider fault {:?} on decrypt_dek", df), &f, &blob);
        let mut b = blob.clone();
        let pos = rng.below(blob.len() as u64) as usize;
        b[pos] ^= 0x10;
        judge(&mut co, "provider_decrypt_fault_plus_blob", format!("provider fault {:?} and byte {} damaged", df, pos), &f, &b);
    }
    // provider faults on encrypt: whatever is produced must never decrypt to something else
    for (ef, res) in enc_fault_results {
        cases += 1;
        distinct += 1;
        match res {
            Err(_) => co.violate("C14", "envelope_panic", sig("envelope_panic", "provider_encrypt_fault"), format!("{}: provider fault {:?} on encrypt_dek -> panic", ctxs, ef)),
            Ok(Err(_)) => {}
            Ok(Ok((b, dec))) => match dec {
                Err(_) => {}
                Ok(p) if p == seed && ef == EncFault::None => {}
                Ok(p) => {
                    // a blob was produced from a faulty wrap and decrypts: only acceptable if it
                    // is the seed and the provider really can unwrap what it issued
                    if p != seed {
                        co.violate("C14", "envelope_ok_on_fault", sig("envelope_wrong_plaintext_on_fault", "provider_encrypt_fault"), format!("{}: provider fault {:?} on encrypt_dek -> blob of {} bytes decrypts to different plaintext", ctxs, ef, b.len()));
                    }
                }
            },
        }
    }
    co.cases = Some((cases, distinct));
    co.count("fault_cases", cases);
    co.probe("bit_flip");
    co.probe("byte_change");
    co.probe("truncation");
    co.probe("extension");
    co.probe("provider_decrypt_fault");
    co.probe("provider_encrypt_fault");
    co.sample = Some(serde_json::json!({
        "plaintext_len": plen, "provider": pname, "wrapped_len": wlen, "blob_len": blob.len(), "fault_cases": cases, "all_byte_values": all_values,
        "verdict": if co.violations.is_empty() { "ok".to_string() } else { co.violations[0].signature.clone() },
    }));
    co
}

pub fn property() -> Property {
    Property {
        id: "C14",
        level: "fault_enumeration",
        budget,
        gen,
        check,
        finalize: no_finalize,
        rule: "for each sampled (plaintext length 32..=64, plaintext texture in {random bytes, lower-case hex text, mixed-case hex text, base64 text, zeros, 0xff, punctuation and whitespace, decimal digits}, provider in {exact-match registry, AES-GCM wrapper}, wrapped-key length 16..=1024) the real encrypt_seed produces a blob (DEK and nonce drawn through the simulated entropy seam and therefore known), then every single-bit flip at every position, every single-byte change at every position (3 values quick, all 255 thorough), every truncation length, extensions by 1..=64 bytes (of 0x00, 0xff, line feed, carriage return, blank, the equals sign), each provider fault on decrypt (error, different key, key lengths 0/16/31/33/64) alone and with one damaged byte, and each provider fault on encrypt (error, empty output, output longer than the 16-bit length field) is evaluated against the real decrypt_seed; evaluations = fault cases evaluated; distinct non-trivial = cases that changed at least one byte of the blob or one provider answer (every case does, by construction)",
        assumptions: &["harness providers are non-malleable by construction, so a provider that ignores damaged bytes cannot cause a false alarm", "no scheduler is involved: this is fault enumeration on the KmsProvider seam and the stored blob"],
        real: "real code: roughenough::kms::EnvelopeEncryption::{encrypt_seed, decrypt_seed}, ring AES-256-GCM",
        stub: "stubs: KmsProvider implementations (registry, AES-GCM wrapper, XOR, fault injectors), entropy (ring SystemRandom stand-in)",
    }
}
