//! Scenario generators and oracles, one module per property.

use crate::exec::RunOut;
use crate::plan::*;
use dsim::rng::Rng;
use std::collections::BTreeMap;

pub mod common;
pub mod c01;
pub mod c02;
pub mod c03;
pub mod clientside;
pub mod c07;
pub mod c08;
pub mod c09;
pub mod c10;
pub mod c11;
pub mod c12;
pub mod c14;
pub mod c15;
pub mod c16;
pub mod c17;
pub mod c18;
pub mod c19;
pub mod fmode;
pub mod c20;

#[derive(Default, Clone, Debug, serde::Serialize, serde::Deserialize)]
pub struct CheckOut {
    pub violations: Vec<Violation>,
    /// the system under test did real work in this run
    pub nontrivial: bool,
    /// summed across runs; used by `finalize` for aggregate (statistical) oracles
    pub counters: BTreeMap<String, u64>,
    /// reach probes hit in this run
    pub probes: BTreeMap<String, u64>,
    pub sample: Option<serde_json::Value>,
    /// fault-enumeration checks: (cases evaluated, distinct non-trivial cases) of this run
    pub cases: Option<(u64, u64)>,
}

impl CheckOut {
    pub fn violate(&mut self, property: &str, class: &str, signature: String, detail: String) {
        // one violation per signature per run is enough
        if self.violations.iter().any(|v| v.signature == signature) {
            return;
        }
        self.violations.push(Violation { property: property.to_string(), class: class.to_string(), signature, detail });
    }
    pub fn count(&mut self, k: &str, n: u64) {
        *self.counters.entry(k.to_string()).or_insert(0) += n;
    }
    pub fn probe(&mut self, k: &str) {
        *self.probes.entry(k.to_string()).or_insert(0) += 1;
    }
}

#[derive(Clone, Copy, PartialEq, Debug)]
pub enum Tier {
    Quick,
    Thorough,
}

pub struct Property {
    pub id: &'static str,
    pub level: &'static str,
    /// number of runs per tier
    pub budget: fn(Tier) -> u64,
    /// plan for the idx-th run of a tier (idx selects the profile; seed everything else)
    pub gen: fn(seed: u64, idx: u64, tier: Tier) -> Plan,
    pub check: fn(&Plan, &RunOut) -> CheckOut,
    /// aggregate oracle over the summed counters of all runs
    pub finalize: fn(&BTreeMap<String, u64>, Tier) -> Vec<Violation>,
    pub rule: &'static str,
    pub assumptions: &'static [&'static str],
    pub real: &'static str,
    pub stub: &'static str,
}

pub fn no_finalize(_: &BTreeMap<String, u64>, _: Tier) -> Vec<Violation> {
    vec![]
}

pub const REAL_W: &str = "real code: roughenough library (Server::new, Server::process_events, Responder, MerkleTree, OnlineKey, LongTermKey, Grease, request parsing, RtMessage codec, stats), ed25519-dalek, ring digests/AEAD, log facade";
pub const REAL_F: &str = "real code: roughenough-server main() (argument handling, config loading and validation, worker spawn/join, signal handler, reporter), the whole roughenough library, ed25519-dalek, ring digests, yaml-rust, csv, zstd, crossbeam-queue, log facade";
pub const REAL_C: &str = "real code: roughenough-client main() (clap parsing, request construction, response parsing and validation, output formatting), roughenough library (RtMessage, MerkleTree, MsgVerifier), ed25519-dalek, chrono";
pub const STUB: &str = "stubs: kernel (UDP sockets, SO_REUSEPORT groups, epoll edge semantics, TCP accept queue, port table), mio/mio-extras/net2/ctrlc/simple_logger glue, wall and monotonic clocks, OS entropy (ring SystemRandom, rand thread_rng/from_entropy), std thread/Mutex/process/env/fs::File, ahash keys";

pub fn registry() -> Vec<Property> {
    vec![c01::property(), c02::property(), c03::property(), c07::property(), c08::property(), c09::property(), c10::property(), c11::property(), c12::property(), c14::property(), c15::property(), c16::property(), c17::property(), c18::property(), c19::property(), c20::property()]
}

pub fn find(id: &str) -> Option<Property> {
    registry().into_iter().find(|p| p.id == id)
}

/// seed of the idx-th run of a check
pub fn run_seed(base: u64, idx: u64) -> u64 {
    Rng::derive(base.wrapping_mul(0x9E37_79B9).wrapping_add(idx), "run").next_u64() >> 1
}
