//! C08 — no datagram sequence can crash or wedge a serving worker (mode W).

use super::common::*;
use super::*;
use crate::view::View;

fn budget(t: Tier) -> u64 {
    match t {
        Tier::Quick => 1600,
        Tier::Thorough => 160_000,
    }
}

/// The whole server (the binary's main(), workers, reporter thread, health listener) under
/// datagram storms and every kind of failing system call the simulated kernel can inject.
fn gen_full_system(seed: u64) -> Plan {
    let mut rng = Rng::derive(seed, "c08-full");
    let mut plan = Plan::new("C08", "c08.full_system_faults", seed);
    let mut s = ServerSpec::basic(Mode::F, &random_seed_hex(&mut rng));
    s.workers = 1 + rng.below(4) as i64;
    s.batch_size = 1 + rng.below(64) as i64;
    s.log_level = Some(rng.below(6) as u8);
    s.fault_pct = *rng.pick(&[0i64, 0, 10, 50]);
    s.fault_written = s.fault_pct > 0;
    s.source = if rng.chance(1, 2) { ConfigSource::File } else { ConfigSource::Env };
    file_layout(&mut rng, &mut s);
    s.health_port = if rng.chance(2, 3) { Some(8000) } else { None };
    if rng.chance(1, 2) {
        s.client_stats = Some("on".into());
        s.persist_dir = Some("/tmp".into());
        s.status_interval = Some(*rng.pick(&[1i64, 2, 10]));
        s.stats_limit = Some(*rng.pick(&[2i64, 8, 5_000_000]));
    }
    world_knobs(&mut rng, &mut plan, true);
    {
        let f = &mut plan.world.faults;
        f.send_err = *rng.pick(&[0u32, 50, 300]);
        f.recv_err = *rng.pick(&[0u32, 20, 100]);
        f.accept_err = *rng.pick(&[0u32, 200, 500]);
        f.tcp_write_err = *rng.pick(&[0u32, 200, 500]);
        f.file_create_err = *rng.pick(&[0u32, 300, 1000]);
        f.file_write_err = *rng.pick(&[0u32, 300]);
        f.disk_stall = *rng.pick(&[0u32, 300]);
        f.disk_stall_max_ms = 400;
    }
    plan.world.rcv_cap = *rng.pick(&[4usize, 64, 512]);
    let health = s.health_port.is_some();
    plan.server = Some(s);
    let sockets = 1 + rng.below(24) as u32;
    let n = 30 + rng.below(200) as u32;
    let end = storm(&mut rng, &mut plan, n, sockets, 30_000);
    // clock anomalies and health probes during the storm
    for k in 0..rng.below(4) {
        plan.step(30_000 + rng.below(end - 29_000), Action::WallStepMs(*rng.pick(&[-86_400_000i64, -2_000, -1, 1, 3_000, 86_400_000])));
        let _ = k;
    }
    if health {
        for k in 0..(1 + rng.below(6)) {
            plan.step(30_000 + rng.below(end - 29_000), Action::Health { id: k as u32, reset: false });
        }
    }
    // long enough for the reporter (1 s loop) to run into the injected file errors
    let quiet = end + 1_500_000 + rng.below(1_500_000);
    plan.world.faults_until_ms = quiet / 1000;
    let t = sentinels(&mut plan, 8, quiet + 20_000);
    final_burst(&mut rng, &mut plan, t + 50_000);
    wall_steps(&mut rng, &mut plan);
    let last = plan.last_step_us();
    plan.world.horizon_ms = last / 1000 + 1200;
    plan
}

fn gen(seed: u64, idx: u64, _tier: Tier) -> Plan {
    if idx % 4 == 3 {
        return gen_full_system(seed);
    }
    let mut rng = Rng::derive(seed, "c08");
    let faulty = idx % 2 == 1;
    let mut plan = Plan::new("C08", if faulty { "c08.storm_socket_faults" } else { "c08.storm" }, seed);
    let mut s = ServerSpec::basic(Mode::W, &random_seed_hex(&mut rng));
    s.workers = *rng.pick(&[1i64, 1, 2, 4]);
    s.batch_size = 1 + rng.below(64) as i64;
    s.log_level = Some(rng.below(6) as u8);
    s.fault_pct = *rng.pick(&[0i64, 0, 1, 25, 50]);
    s.client_stats = if rng.chance(1, 3) { Some("on".into()) } else { None };
    s.stats_limit = Some(*rng.pick(&[2i64, 3, 8, 5_000_000]));
    s.status_interval = Some(*rng.pick(&[1i64, 2, 10, 600]));
    world_knobs(&mut rng, &mut plan, faulty);
    if faulty {
        let f = &mut plan.world.faults;
        f.send_err = *rng.pick(&[0u32, 50, 300]);
        f.recv_err = *rng.pick(&[0u32, 20, 100]);
        plan.world.rcv_cap = *rng.pick(&[4usize, 64, 512]);
    }
    plan.server = Some(s);
    let sockets = 1 + rng.below(24) as u32;
    let n = 30 + rng.below(300) as u32;
    let end = storm(&mut rng, &mut plan, n, sockets, 6000);
    // faults stop after the storm; then up to 8 sentinels
    plan.world.faults_until_ms = end / 1000 + 5;
    let t = sentinels(&mut plan, 8, end + 20_000);
    final_burst(&mut rng, &mut plan, t + 50_000);
    wall_steps(&mut rng, &mut plan);
    let last = plan.last_step_us();
    plan.world.horizon_ms = last / 1000 + 1200;
    plan
}

fn check(plan: &Plan, out: &RunOut) -> CheckOut {
    let mut co = CheckOut::default();
    let v = View::build(out);
    let spec = plan.server.as_ref().unwrap();
    co.nontrivial = !v.recvs.is_empty();
    monitor_leak(&mut co, out);
    check_no_panic(&mut co, "C08", out);
    // "processing returns normally, and a valid request ... is answered": every valid request a
    // worker has read gets its (one) send attempt, whatever failed before it in the same batch,
    // and nothing is left unread at the end
    check_exactly_once(&mut co, "C08", &v, out, true);
    if out.outcome == dsim::Outcome::StepCap {
        co.violate("C08", "wedged", "C08|step_cap".into(), "the run hit the scheduler step cap: a task is spinning".into());
    }
    // sentinels: sent after the last fault and the last garbage datagram
    let w = &out.world;
    let sentinel_addrs: Vec<std::net::SocketAddr> = (0..9).map(|i| crate::reqs::client_addr(SENTINEL_SOCK + i)).collect();
    let sent_sentinels: Vec<&crate::exec::SentReq> = out.ctx.sent.iter().filter(|s| s.sock >= SENTINEL_SOCK).collect();
    let mut answered_ok = 0;
    let mut answered_any = 0;
    let mut first_latency: Option<u64> = None;
    for q in v.recvs.iter().filter(|q| sentinel_addrs.contains(&q.src)) {
        for &si in &q.answers {
            let s = &v.sends[si];
            if s.ok {
                answered_any += 1;
                if matches!(s.verdict, Some(Ok(_))) {
                    answered_ok += 1;
                }
                let sent_at = sent_sentinels.iter().find(|x| x.dgram == q.dgram).map(|x| x.at).unwrap_or(q.t);
                let lat = s.t.saturating_sub(sent_at);
                first_latency = Some(first_latency.map(|l| l.min(lat)).unwrap_or(lat));
            }
        }
    }
    let workers_alive = w.procs.iter().filter(|p| p.sut).all(|p| p.exit.is_none());
    if plan.scenario == "c08.full_system_faults" {
        for p in w.procs.iter().filter(|p| p.sut) {
            if let Some(code) = p.exit {
                co.violate("C08", "server_exited", format!("C08|server_exited_under_faults|code={}", code), format!("the server process ended with status {} ({}) under injected faults", code, p.exit_how));
            }
        }
        co.probe("full_system_run");
    }
    if !sent_sentinels.is_empty() && view_no_panics(out) {
        if answered_any == 0 {
            co.violate("C08", "wedged_no_sentinel_reply", format!("C08|wedged_no_sentinel_reply|workers_alive={}", workers_alive), format!("none of {} valid sentinel requests sent after the storm was answered", sent_sentinels.len()));
        } else if spec.fault_pct == 0 && answered_ok == 0 {
            co.violate("C08", "sentinel_reply_invalid", "C08|sentinel_reply_invalid".into(), "sentinel requests were answered but no reply verified although fault injection is off".into());
        }
        // "a valid request sent afterwards is answered": each sentinel that reached a worker's
        // socket (faults have stopped, the path is clean; only a queue still full of storm
        // leftovers can turn one away) must be read and answered, not merely some of them
        let lost: std::collections::BTreeSet<u64> = w.history.iter().filter_map(|r| match &r.ev { dsim::Ev::Lost { dgram, .. } => Some(*dgram), _ => None }).collect();
        if answered_any > 0 {
            for sq in &sent_sentinels {
                if lost.contains(&sq.dgram) {
                    continue;
                }
                let answered = v.recvs.iter().any(|q| q.dgram == sq.dgram && q.answers.iter().any(|&si| v.sends[si].ok));
                if !answered {
                    let read = v.recvs.iter().any(|q| q.dgram == sq.dgram);
                    co.violate(
                        "C08",
                        "wedged_no_sentinel_reply",
                        format!("C08|sentinel_unanswered|read_by_worker={}", read),
                        format!("sentinel request #{} from socket {} (sent at {:.6}s, after the storm and the last fault) reached a worker's socket but was {}", sq.dgram, sq.sock, sq.at as f64 / 1e9, if read { "read and never answered" } else { "never read: the worker stopped draining its socket" }),
                    );
                }
            }
        }
        if let Some(l) = first_latency {
            if l > dsim::SEC {
                co.violate("C08", "wedged_no_sentinel_reply", "C08|sentinel_reply_late".into(), format!("fastest sentinel reply took {} ms of simulated time", l / dsim::MS));
            }
        }
    }
    if answered_ok > 0 {
        co.probe("sentinel_verified");
    }
    for (k, n) in &out.world.fault_fired {
        if *n > 0 {
            co.probe(match *k {
                "send_err" => "send_failure_path",
                "recv_err" => "recv_error_path",
                "rcv_overflow" => "queue_overflow",
                "accept_err" => "accept_error_path",
                "tcp_write_err" => "health_write_error_path",
                "file_create_err" => "stats_file_create_error_path",
                "file_write_err" => "stats_file_write_error_path",
                "disk_stall" => "disk_stall_path",
                _ => "other_fault",
            });
        }
    }
    if spec.log_level.unwrap_or(0) >= 4 {
        co.probe("log_debug_or_trace");
    }
    co.count("datagrams_received", v.recvs.len() as u64);
    co.sample = Some(serde_json::json!({
        "scenario": plan.scenario, "seed": plan.seed, "log_level": spec.log_level, "fault_percentage": spec.fault_pct, "batch_size": spec.batch_size, "workers": spec.workers,
        "datagrams_received": v.recvs.len(), "responses": v.sends.len(), "sentinels_answered": answered_any, "sentinels_verified": answered_ok,
        "faults_fired": out.world.fault_fired,
        "verdict": if co.violations.is_empty() { "ok".to_string() } else { co.violations[0].signature.clone() },
    }));
    co
}

fn view_no_panics(_out: &RunOut) -> bool {
    // a panic is reported on its own; the sentinel oracle still runs (a dead worker is a wedge too)
    true
}

pub fn property() -> Property {
    Property {
        id: "C08",
        level: "exploration",
        budget,
        gen,
        check,
        finalize: no_finalize,
        rule: "three in four evaluations: one simulated execution of 1-4 real Server workers at a seeded log level (Off..Trace), fault_percentage and batch_size, fed a storm of 30-330 datagrams (as C07) with, in the fault profile, send_to/recv_from errors, receive-queue overflow, spurious poll returns, phantom datagrams, postponed tasks; then 8 valid sentinels after faults stop and a final burst (1-6 awkward datagrams incl. empty / 1-byte / oversized, one valid request behind them in the same instant, nothing afterwards); every sentinel that reached a worker's socket must be answered; one in four: the real main() (workers, reporter thread, health listener) under the same storms plus accept / TCP write / statistics-file create and write errors, disk stalls, wall-clock steps and health probes; non-trivial = workers received datagrams; distinct = distinct schedule fingerprints",
        assumptions: &["log verbosity is selected through log::set_max_level as an embedding program would", "bounded liveness: a sentinel is answered within 1 simulated second once faults stop"],
        real: REAL_F,
        stub: STUB,
    }
}
