//! C10 — server identity is a pure function of the seed and certifies every online key (F + W).

use super::common::*;
use super::fmode::*;
use super::*;
use crate::view::{self, View};
use refimpl as r;

fn budget(t: Tier) -> u64 {
    match t {
        Tier::Quick => 2_800,
        Tier::Thorough => 200_000,
    }
}

/// The library embedded in a program that has created a server for another seed earlier in its
/// life (a multi-tenant host, a test harness, an operator tool that rotates keys in-process): the
/// identity of a server is a function of *its* seed, not of whatever the process saw first.
fn gen_embedded(seed: u64) -> Plan {
    let mut rng = Rng::derive(seed, "c10-embedded");
    let mut plan = Plan::new("C10", "c10.embedded_second_identity", seed);
    let mut s = ServerSpec::basic(Mode::W, &seed_hex(&mut rng));
    s.workers = 1 + rng.below(3) as i64;
    s.batch_size = *rng.pick(&[1i64, 8, 64]);
    s.log_level = Some(0);
    world_knobs(&mut rng, &mut plan, false);
    plan.world.flow_hash = None;
    plan.world.rcv_cap = 4096;
    plan.params.insert("prior_identity".into(), 1 + rng.below(1_000_000) as i64);
    let workers = s.workers as u64;
    plan.server = Some(s);
    let mut ctr = seed ^ 0xe10;
    let mut t = 8_000u64;
    for _ in 0..(1 + rng.below(3)) {
        for k in 0..(workers * 3 + rng.below(8)) {
            ctr += 1;
            let req = match rng.below(5) {
                0 => ReqSpec::RawVer { size: 1024, nonce_seed: ctr, ver: Some(r::VER_DRAFT13.to_le_bytes().to_vec()), srv: SrvMode::Correct },
                1 => ReqSpec::RawVer { size: 1024, nonce_seed: ctr, ver: Some(r::VER_DRAFT13.to_le_bytes().to_vec()), srv: SrvMode::Other(rng.next_u64()) },
                _ => valid_spec(&mut rng, &mut ctr),
            };
            plan.step(t + k * *rng.pick(&[0u64, 2, 40]), Action::Send { sock: rng.below(48) as u32, req });
        }
        t += *rng.pick(&[3_000u64, 40_000]);
    }
    settle(&mut plan, 500);
    plan
}

fn gen(seed: u64, idx: u64, _tier: Tier) -> Plan {
    if idx % 10 == 9 {
        return gen_embedded(seed);
    }
    let mut rng = Rng::derive(seed, "c10");
    let mut plan = Plan::new("C10", "c10.restarts", seed);
    let mut s = ServerSpec::basic(Mode::F, &seed_hex(&mut rng));
    s.workers = 1 + rng.below(4) as i64;
    s.batch_size = *rng.pick(&[1i64, 8, 64]);
    process_settings(&mut rng, &mut s);
    if rng.chance(1, 3) && s.seed_hex.chars().any(|c| matches!(c, 'a' | 'b' | 'c' | 'd' | 'f')) {
        // the seed as an operator may write it: upper-case or mixed-case hexadecimal names the
        // same 32 bytes, hence the same key (a seed YAML could read as a number stays quoted)
        let mixed: String = s.seed_hex.chars().map(|c| if rng.chance(1, 2) { c.to_ascii_uppercase() } else { c }).collect();
        s.seed_written = Some(if rng.chance(1, 2) { s.seed_hex.to_uppercase() } else { mixed });
    }
    world_knobs(&mut rng, &mut plan, false);
    plan.world.flow_hash = None; // arbitrary distribution: reach every worker's certificate
    if idx % 3 == 1 {
        // a failed send must not change what later responses carry
        plan.world.faults.send_err = *rng.pick(&[20u32, 100]);
    }
    plan.world.rcv_cap = 4096;
    if rng.chance(2, 3) {
        // "a validity window containing the response midpoint" is a statement about every clock
        // reading: around the epoch, 2^31, 2^32, far future, second / day rollovers (as C11)
        plan.world.wall_secs = super::c11::pick_secs(&mut rng).min(super::c11::Y9999 - 30);
        plan.world.wall_nanos = *rng.pick(&super::c11::EDGES);
    }
    let workers = s.workers as u64;
    plan.server = Some(s);
    let restarts = rng.below(5);
    let mut ctr = seed ^ 0xc10;
    let mut t = 20_000u64;
    for inc in 0..=restarts {
        let rounds = 1 + rng.below(3);
        for _ in 0..rounds {
            for k in 0..(workers * 3 + rng.below(8)) {
                // SRV variants: correct, wrong, absent
                ctr += 1;
                let req = match rng.below(7) {
                    // a classic request that also names draft-13: still a classic request, to be
                    // answered (if at all) with the classic certificate
                    6 => ReqSpec::Mutant {
                        base: Box::new(ReqSpec::Valid { proto: P::Classic, size: 1024, nonce_seed: ctr, srv: SrvMode::Absent, vers: vec![] }),
                        muts: vec![Mutation::PutField { tag: r::VER, value: r::VER_DRAFT13.to_le_bytes().to_vec() }],
                    },
                    0 => ReqSpec::RawVer { size: 1024, nonce_seed: ctr, ver: Some(r::VER_DRAFT13.to_le_bytes().to_vec()), srv: SrvMode::Correct },
                    1 => ReqSpec::RawVer { size: 1024, nonce_seed: ctr, ver: Some(r::VER_DRAFT13.to_le_bytes().to_vec()), srv: if rng.chance(1, 2) { SrvMode::Other(rng.next_u64()) } else { SrvMode::BitFlip(rng.below(256) as u16) } },
                    _ => valid_spec(&mut rng, &mut ctr),
                };
                plan.step(t + k * *rng.pick(&[0u64, 2, 40]), Action::Send { sock: rng.below(48) as u32, req });
            }
            t += *rng.pick(&[3_000u64, 40_000, 200_000]);
        }
        if inc < restarts {
            // crash, signal or plain restart at an arbitrary point, possibly with traffic in flight
            let when = t - rng.below(2_000).min(t / 2);
            match rng.below(3) {
                0 => {
                    plan.step(when, Action::Crash);
                    plan.step(when + 1 + rng.below(50_000), Action::Restart);
                }
                1 => {
                    plan.step(when, Action::Signal { sig: if rng.chance(1, 2) { 2 } else { 15 } });
                    plan.step(when + 1_300_000, Action::Restart);
                    t = when + 1_300_000;
                }
                _ => plan.step(when, Action::Restart),
            }
            t = t.max(when) + 20_000 + rng.below(50_000);
        }
        let _ = idx;
    }
    // (a validity window must contain the midpoint after the clock has been set back, too)
    wall_steps(&mut rng, &mut plan);
    settle(&mut plan, 500);
    plan
}

fn check(plan: &Plan, out: &RunOut) -> CheckOut {
    let mut co = CheckOut::default();
    let v = View::build(out);
    let spec = plan.server.as_ref().unwrap();
    let seed = crate::exec::hex_decode(&spec.seed_hex).unwrap();
    let pk = r::pubkey_from_seed(&seed);
    let srv = r::srv_value(&pk);
    co.nontrivial = !v.sends.is_empty();
    monitor_leak(&mut co, out);
    check_no_panic(&mut co, "C10", out);
    // library view of the same identity
    {
        let k = roughenough::key::LongTermKey::new(&seed);
        if k.public_key() != pk {
            co.violate("C10", "identity_mismatch", "C10|identity_mismatch|public_key_api".into(), format!("LongTermKey::public_key() differs from the RFC 8032 key of the seed {}", spec.seed_hex));
        }
        if k.srv_value() != &srv[..] {
            co.violate("C10", "identity_mismatch", "C10|identity_mismatch|srv_api".into(), "LongTermKey::srv_value() differs from SHA-512(0xff || pk)[0..32]".into());
        }
    }
    // library view of the certificates: responder instances created from one long-term key, in any
    // order and number (the server creates one IETF and one classic online key per worker, in that
    // order; an embedding program need not)
    {
        dsim::install(dsim::World::new(plan.world.to_cfg(), dsim::Tape::replay(vec![])));
        let made = std::panic::catch_unwind(|| {
            let mut k = roughenough::key::LongTermKey::new(&seed);
            let mut rng = Rng::derive(plan.seed, "c10-cert-sequence");
            let mut out = Vec::new();
            for _ in 0..2 + rng.below(5) {
                let ietf = rng.chance(1, 2);
                let version = if ietf { roughenough::version::Version::RfcDraft13 } else { roughenough::version::Version::Google };
                let online = roughenough::key::OnlineKey::new();
                out.push((ietf, k.make_cert(&version, &online).encode().unwrap_or_default()));
            }
            out
        });
        let _ = dsim::take();
        match made {
            Err(_) => co.violate("C10", "task_panicked", "C10|cert_sequence_panicked".into(), "creating certificates for a sequence of online keys from one long-term key panicked".into()),
            Ok(certs) => {
                let order: String = certs.iter().map(|(i, _)| if *i { 'I' } else { 'C' }).collect();
                for (n, (ietf, cert)) in certs.iter().enumerate() {
                    let (own, other) = if *ietf { (r::Proto::Ietf, r::Proto::Classic) } else { (r::Proto::Classic, r::Proto::Ietf) };
                    if !r::cert_verifies(cert, &pk, own) {
                        co.violate("C10", "cert_sig_invalid", format!("C10|cert_sig_invalid|proto={}|library_sequence", own.name()), format!("certificate {} of the sequence {} (C = classic, I = IETF) made from one long-term key does not verify under the seed's key with its own delegation context", n, order));
                    }
                    if r::cert_verifies(cert, &pk, other) {
                        co.violate("C10", "cert_cross_context", format!("C10|cert_cross_context|proto={}|library_sequence", own.name()), format!("certificate {} of the sequence {} verifies under the other protocol's delegation context", n, order));
                    }
                }
                co.probe("library_cert_sequence");
            }
        }
    }
    // every incarnation announces the same key
    let bs = boots(out);
    for (i, b) in bs.iter().enumerate() {
        for announced in b.logged.get("Long-term public key").cloned().unwrap_or_default() {
            if announced != r::hex_lower(&pk) {
                co.violate("C10", "identity_mismatch", "C10|identity_mismatch|announced_key".into(), format!("incarnation {} announced long-term key {}, the seed's RFC 8032 key is {}", i, announced, r::hex_lower(&pk)));
            }
        }
    }
    if bs.len() >= 2 {
        co.probe("restarted");
    }
    // SRV: correct answered, wrong not (View classifies with the reference SRV)
    for q in &v.recvs {
        match &q.class {
            Err(why) if *why == "SRV names another server" => {
                co.probe("wrong_srv_seen");
                if !q.answers.is_empty() {
                    co.violate("C10", "identity_mismatch", "C10|wrong_srv_answered".into(), format!("request #{} carrying another server's SRV was answered", q.dgram));
                }
            }
            _ => {}
        }
    }
    // a request carrying this server's SRV (computed by the reference: sha2) is answered, provided
    // the incarnation that received it stayed up for another half second
    for q in &v.recvs {
        if let Ok(info) = &q.class {
            let has_srv = info.proto == r::Proto::Ietf && r::decode(&q.data[12..]).map(|(m, _)| m.has(r::SRV)).unwrap_or(false);
            if has_srv && info.must == r::Must::Answer && q.answers.is_empty() {
                let pr = &out.world.procs[q.proc];
                let lived = pr.exit_at.map(|t| t > q.t + 500 * dsim::MS).unwrap_or(out.world.now > q.t + 500 * dsim::MS);
                if lived {
                    co.violate("C10", "identity_mismatch", "C10|correct_srv_unanswered".into(), format!("request #{} names this server (SRV = SHA-512(0xff || pk)[0..32]) and was not answered", q.dgram));
                }
            }
        }
    }
    // every certificate: right context verifies, other context does not; window contains midpoint
    let mut certs: std::collections::BTreeSet<(Vec<u8>, bool)> = Default::default();
    for s in &v.sends {
        let proto = view::response_proto(&s.data);
        let payload = if proto == r::Proto::Ietf { &s.data[12..] } else { &s.data[..] };
        let cert = match r::decode(payload).ok().and_then(|(m, _)| m.get(r::CERT).map(|c| c.to_vec())) {
            Some(c) => c,
            None => {
                co.violate("C10", "cert_sig_invalid", "C10|response_without_cert".into(), format!("response seq {} carries no CERT", s.seq));
                continue;
            }
        };
        if !certs.insert((cert.clone(), proto == r::Proto::Ietf)) {
            continue;
        }
        if !r::cert_verifies(&cert, &pk, proto) {
            co.violate("C10", "cert_sig_invalid", format!("C10|cert_sig_invalid|proto={}", proto.name()), format!("a {} certificate does not verify under the seed's long-term key with the {} delegation context", proto.name(), proto.name()));
        }
        let otherp = if proto == r::Proto::Ietf { r::Proto::Classic } else { r::Proto::Ietf };
        if r::cert_verifies(&cert, &pk, otherp) {
            co.violate("C10", "cert_cross_context_verifies", format!("C10|cert_cross_context_verifies|proto={}", proto.name()), format!("a {} certificate also verifies under the {} delegation context", proto.name(), otherp.name()));
        }
    }
    check_validity(&mut co, "C10", &v);
    let online: std::collections::BTreeSet<Vec<u8>> = v.sends.iter().filter_map(|s| s.verdict.as_ref().and_then(|x| x.as_ref().ok()).map(|x| x.online_pubk.clone())).collect();
    co.count("distinct_certificates", certs.len() as u64);
    co.count("distinct_online_keys", online.len() as u64);
    if online.len() >= 4 {
        co.probe("many_online_keys_certified");
    }
    if v.sends.iter().any(|s| s.request.map(|i| matches!(&v.recvs[i].class, Ok(info) if info.proto == r::Proto::Ietf && r::decode(&v.recvs[i].data[12..]).map(|(m, _)| m.has(r::SRV)).unwrap_or(false))).unwrap_or(false)) {
        co.probe("correct_srv_answered");
    }
    co.sample = Some(serde_json::json!({
        "scenario": plan.scenario, "seed": plan.seed, "server_seed": spec.seed_hex, "workers": spec.workers, "incarnations": bs.len(),
        "exit_codes": bs.iter().map(|b| b.exit).collect::<Vec<_>>(), "responses": v.sends.len(), "distinct_certificates": certs.len(), "distinct_online_keys": online.len(),
        "verdict": if co.violations.is_empty() { "ok".to_string() } else { co.violations[0].signature.clone() },
    }));
    co
}

pub fn property() -> Property {
    Property {
        id: "C10",
        level: "exploration",
        budget,
        gen,
        check,
        finalize: no_finalize,
        rule: "one evaluation = one simulated execution in which the real main() is booted from a configuration with a per-run seed (random, all-zero, all-0xff, single-bit patterns), 1-4 workers, a wall clock started (two runs in three) at a swept instant (epoch, 2^31, 2^32, far future, second/minute/day rollovers), served mixed classic/IETF traffic with correct/wrong/absent SRV under arbitrary REUSEPORT distribution, and crashed, signalled or restarted 0-4 times at seeded instants (with traffic in flight) and rebooted from the same configuration; non-trivial = at least one response sent; distinct = distinct schedule fingerprints",
        assumptions: &["the only durable state is the configuration: a restart is a fresh process image with the same argv/config", "RFC 8032 public key and SRV computed by ring / sha2"],
        real: REAL_F,
        stub: STUB,
    }
}
