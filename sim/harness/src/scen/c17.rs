//! C17 — request statistics conserve events, stay bounded, and match the traffic served (W + F).
//! Claimed part: the system-level clauses (what a running server records vs what the simulated
//! kernel saw it receive and send).

use super::common::*;
use super::*;
use crate::view::{self, View};
use refimpl as r;
use std::net::IpAddr;

fn budget(t: Tier) -> u64 {
    match t {
        Tier::Quick => 2_700,
        Tier::Thorough => 100_000,
    }
}

/// Magnitudes no simulated traffic reaches: the reporter alone, fed snapshots by the harness.
fn gen_direct(seed: u64) -> Plan {
    let mut rng = Rng::derive(seed, "c17-direct");
    let mut plan = Plan::new("C17", "c17.reporter_direct", seed);
    world_knobs(&mut rng, &mut plan, false);
    let interval_s = *rng.pick(&[1u64, 2, 5]);
    let addrs = 1 + rng.below(4) as u8;
    let n = 2 + rng.below(11);
    // 32-bit counters: the sum per address over the whole run stays within the type
    let mut room = vec![[u32::MAX as u64; 8]; addrs as usize];
    let mut pushes = Vec::new();
    let mut t = 0u64;
    for _ in 0..n {
        t += *rng.pick(&[0u64, 1_000, 300_000, 1_100_000, 2_500_000]);
        let mut rows = Vec::new();
        for a in 0..addrs {
            if rng.chance(1, 3) {
                continue;
            }
            let mut v = [0u64; 8];
            for i in 0..8 {
                if i == 6 {
                    v[i] = *rng.pick(&[0u64, 1, 1488, 1 << 31, (1 << 32) - 1, 1 << 32, (1 << 32) + 1, 3 << 32, 1 << 40, 65_000 * 50_000]);
                } else {
                    let want = *rng.pick(&[0u64, 1, 2, 1000, 65_535, 65_536, (1 << 31) - 1, 1 << 31, u32::MAX as u64]);
                    v[i] = want.min(room[a as usize][i]);
                    room[a as usize][i] -= v[i];
                }
            }
            rows.push((a, v));
        }
        pushes.push((t, rows));
    }
    let linger_ms = (interval_s + 3) * 1000;
    plan.world.horizon_ms = t / 1000 + linger_ms + 2_500;
    plan.step(1_000, Action::ReporterDirect { interval_s, pushes, linger_ms });
    plan
}

fn check_direct(plan: &Plan, out: &RunOut) -> CheckOut {
    let mut co = CheckOut::default();
    co.nontrivial = true;
    check_no_panic(&mut co, "C17", out);
    let mut want: BTreeMap<IpAddr, [u64; 8]> = BTreeMap::new();
    let mut big = false;
    for st in &plan.steps {
        if let Action::ReporterDirect { pushes, .. } = &st.act {
            for (_, rows) in pushes {
                for (a, v) in rows {
                    let e = want.entry(crate::exec::direct_addr(a.to_owned()).to_owned()).or_insert([0; 8]);
                    for i in 0..8 {
                        e[i] += v[i];
                    }
                }
            }
        }
    }
    if out.ctx.direct_refused > 0 {
        co.violate("C17", "harness", "C17|direct_push_refused".into(), format!("{} snapshot(s) did not fit the queue", out.ctx.direct_refused));
    }
    let (csv_sum, files) = csv_sums(&mut co, out);
    for (ip, w) in &want {
        if w[6] >= 1 << 32 {
            big = true;
        }
        let got = csv_sum.get(ip).copied().unwrap_or([0; 8]);
        for i in 0..8 {
            if got[i] != w[i] {
                co.violate("C17", "stats_not_conserved", format!("C17|stats_not_conserved|reporter_merge|counter={}", KINDS[i]), format!("address {}: the snapshots handed to the reporter add up to {} = {}, the {} file(s) it persisted say {}", ip, KINDS[i], w[i], files, got[i]));
            }
        }
    }
    for ip in csv_sum.keys() {
        if !want.contains_key(ip) {
            co.violate("C17", "stats_not_conserved", "C17|stats_not_conserved|reporter_merge|unknown_address".into(), format!("the persisted statistics name {}, which no snapshot did", ip));
        }
    }
    if big {
        co.probe("merged_bytes_beyond_32_bits");
    }
    if files >= 2 {
        co.probe("direct_reporter_wrote_ge_2_files");
    }
    co.sample = Some(serde_json::json!({ "scenario": plan.scenario, "seed": plan.seed, "files": files, "addresses": want.len(), "verdict": if co.violations.is_empty() { "ok".to_string() } else { co.violations[0].signature.clone() } }));
    co
}

/// Per-address sums over every statistics file in the simulated file system.
fn csv_sums(co: &mut CheckOut, out: &RunOut) -> (BTreeMap<IpAddr, [u64; 8]>, usize) {
    let mut csv_sum: BTreeMap<IpAddr, [u64; 8]> = BTreeMap::new();
    let mut files = 0;
    for (path, f) in &out.world.vfs {
        if !path.ends_with(".csv.zst") {
            continue;
        }
        files += 1;
        let raw = match zstd::decode_all(&f.data[..]) {
            Ok(r) => r,
            Err(e) => {
                co.violate("C17", "stats_file_unreadable", "C17|stats_file_unreadable".into(), format!("{}: {}", path, e));
                continue;
            }
        };
        let mut rdr = csv::Reader::from_reader(&raw[..]);
        let headers: Vec<String> = rdr.headers().map(|h| h.iter().map(|s| s.to_string()).collect()).unwrap_or_default();
        for rec in rdr.records().flatten() {
            let get = |name: &str| headers.iter().position(|h| h == name).and_then(|i| rec.get(i)).unwrap_or("").to_string();
            let ip: IpAddr = match get("ip_addr").parse() {
                Ok(i) => i,
                Err(_) => continue,
            };
            let e = csv_sum.entry(ip).or_insert([0; 8]);
            for (i, k) in KINDS.iter().enumerate() {
                e[i] += get(k).parse::<u64>().unwrap_or(0);
            }
        }
    }
    (csv_sum, files)
}

fn gen(seed: u64, idx: u64, _tier: Tier) -> Plan {
    if idx % 12 == 7 {
        return gen_direct(seed);
    }
    let mut rng = Rng::derive(seed, "c17");
    let fmode = idx % 3 == 2;
    let mut plan = Plan::new("C17", if fmode { "c17.reporter_csv" } else { "c17.worker_recorders" }, seed);
    let mut s = ServerSpec::basic(if fmode { Mode::F } else { Mode::W }, &random_seed_hex(&mut rng));
    s.workers = 1 + rng.below(4) as i64;
    s.batch_size = *rng.pick(&[1i64, 8, 64]);
    world_knobs(&mut rng, &mut plan, false);
    plan.world.flow_hash = None;
    plan.world.rcv_cap = 4096;
    let pool = 1 + rng.below(6) as i64;
    plan.params.insert("ip_pool".into(), pool);
    if fmode {
        s.source = if rng.chance(1, 2) { ConfigSource::File } else { ConfigSource::Env };
        file_layout(&mut rng, &mut s);
        s.client_stats = Some("on".into());
        s.persist_dir = Some("/tmp".into());
        // mostly one or two reports per run; one run in five reports every 1-2 s for a long time
        // (dozens of reports, hundreds of worker snapshots: anything that goes wrong at the Nth)
        let short = if rng.chance(1, 2) { 1i64 } else { 2 };
        s.status_interval = Some(*rng.pick(&[20i64, 20, 30, 30, short]));
        s.stats_limit = Some(*rng.pick(&[5_000_000i64, 5_000_000, 3, 8]));
    } else {
        plan.params.insert("snap_stats".into(), 1);
        s.log_level = Some(0);
        s.client_stats = if rng.chance(2, 3) { Some("on".into()) } else { None };
        s.stats_limit = Some(*rng.pick(&[2i64, 3, 8, 5_000_000]));
        s.status_interval = Some(*rng.pick(&[1i64, 2, 3, 600, 600]));
        if rng.chance(1, 2) {
            plan.world.faults.send_err = *rng.pick(&[30u32, 200]);
            // (a failed receive is not an event: the datagram stays queued and is counted when read)
            plan.world.faults.recv_err = *rng.pick(&[0u32, 30]);
        }
    }
    if rng.chance(1, 3) {
        s.health_port = Some(8000);
    }
    let health = s.health_port.is_some();
    plan.server = Some(s);
    let mut ctr = seed ^ 0xc17;
    let mut t = 30_000u64;
    let rounds = 2 + rng.below(5);
    let mut hid = 0;
    // one W-mode run in eight: thousands of events from addresses a full table does not track,
    // with no snapshot in between (anything that happens at the Nth ignored event)
    let heavy = !fmode && idx % 24 == 13;
    if heavy {
        plan.scenario = "c17.worker_recorders_overflow_heavy".into();
        let sp = plan.server.as_mut().unwrap();
        sp.client_stats = Some("on".into());
        sp.stats_limit = Some(*rng.pick(&[2i64, 3]));
        sp.status_interval = Some(600);
        plan.params.insert("ip_pool".into(), 6);
        plan.world.faults.send_err = 0;
        plan.world.faults.recv_err = 0;
        plan.world.rcv_cap = 1 << 16;
        // (and a machine fast enough to have worked the burst off before the run ends)
        plan.world.cost_scale = plan.world.cost_scale.min(1000);
    }
    for round in 0..rounds {
        let n = if heavy && round == 0 { 700 + rng.below(600) } else { 1 + rng.below(60) };
        for k in 0..n {
            let req = if rng.chance(1, 4) { storm_spec(&mut rng, &mut ctr) } else { valid_spec(&mut rng, &mut ctr) };
            plan.step(t + k * *rng.pick(&[0u64, 3, 100]), Action::Send { sock: rng.below(24) as u32, req });
        }
        if health {
            for _ in 0..rng.below(3) {
                plan.step(t + rng.below(1000), Action::Health { id: hid, reset: false });
                hid += 1;
            }
        }
        t += *rng.pick(&[5_000u64, 120_000, 450_000]);
    }
    let many_reports = fmode && plan.server.as_ref().unwrap().status_interval.unwrap() <= 2;
    if fmode && (many_reports || rng.chance(1, 2)) {
        // traffic goes on across the reporter's first report(s): a trickle of requests until after
        // the first interval, so that workers publish snapshots while the reporter is busy writing
        let interval_us = plan.server.as_ref().unwrap().status_interval.unwrap() as u64 * 1_000_000;
        // one long-interval run in six goes on for 6-14 reports as well: there the queue never
        // displaces a snapshot, so the persisted sums must match the traffic exactly
        let long_exact = !many_reports && rng.chance(1, 6);
        if long_exact {
            plan.params.insert("many_reports_exact".into(), 1);
        }
        let until = if many_reports {
            30_000_000 + rng.below(60_000_000)
        } else if long_exact {
            interval_us * (6 + rng.below(9))
        } else {
            interval_us + 5_000_000 + rng.below(4_000_000)
        };
        if many_reports {
            plan.params.insert("many_reports".into(), 1);
        }
        while t < until {
            plan.step(t, Action::Send { sock: rng.below(24) as u32, req: valid_spec(&mut rng, &mut ctr) });
            t += 20_000 + rng.below(180_000);
        }
        plan.params.insert("trickle".into(), 1);
    }
    let last = plan.last_step_us();
    plan.world.faults_until_ms = last / 1000 + 1;
    if fmode {
        let interval_ms = plan.server.as_ref().unwrap().status_interval.unwrap() as u64 * 1000;
        if rng.chance(1, 2) {
            // slow disk: report() takes a while
            plan.world.faults.disk_stall = 600;
            plan.world.faults.disk_stall_max_ms = 500;
            plan.world.faults_until_ms = u64::MAX / 2_000_000;
        }
        // everything is flushed once: the last datagram is handled, the workers have published
        // (interval/10 + jitter), the reporter has merged (1 s loop) and one more full report cycle
        // (interval + loop granularity + stalls) has passed
        let t_flush = last / 1000 + interval_ms / 10 + 3_000;
        plan.world.horizon_ms = t_flush + interval_ms + 6_000;
    } else {
        plan.world.horizon_ms = last / 1000 + if heavy { 4_000 } else { 700 };
    }
    plan
}

/// kinds: 0 rfc req, 1 classic req, 2 invalid, 3 health, 4 rfc resp, 5 classic resp, 6 bytes, 7 failed sends
fn tap(v: &View, out: &RunOut) -> BTreeMap<IpAddr, [u64; 8]> {
    let mut m: BTreeMap<IpAddr, [u64; 8]> = BTreeMap::new();
    for q in &v.recvs {
        let e = m.entry(q.src.ip()).or_insert([0; 8]);
        match q.answers.first() {
            Some(&s) => {
                if view::response_proto(&v.sends[s].data) == r::Proto::Ietf {
                    e[0] += 1
                } else {
                    e[1] += 1
                }
            }
            None => e[2] += 1,
        }
    }
    for s in &v.sends {
        let e = m.entry(s.dst.ip()).or_insert([0; 8]);
        if s.ok {
            if view::response_proto(&s.data) == r::Proto::Ietf {
                e[4] += 1
            } else {
                e[5] += 1
            }
            e[6] += s.data.len() as u64;
        } else {
            e[7] += 1;
        }
    }
    for c in &out.world.conns {
        if c.accepted_at.is_some() {
            m.entry(c.src.ip()).or_insert([0; 8])[3] += 1;
        }
    }
    m
}

const KINDS: [&str; 8] = ["rfc_requests", "classic_requests", "invalid_requests", "health_checks", "rfc_responses_sent", "classic_responses_sent", "bytes_sent", "failed_send_attempts"];

fn check(plan: &Plan, out: &RunOut) -> CheckOut {
    if plan.scenario == "c17.reporter_direct" {
        return check_direct(plan, out);
    }
    let mut co = CheckOut::default();
    let v = View::build(out);
    let spec = plan.server.as_ref().unwrap();
    co.nontrivial = !v.recvs.is_empty();
    monitor_leak(&mut co, out);
    check_no_panic(&mut co, "C17", out);
    let t = tap(&v, out);
    let per_client = spec.client_stats.is_some();
    let sum = |m: &BTreeMap<IpAddr, [u64; 8]>| -> [u64; 8] {
        let mut a = [0u64; 8];
        for v in m.values() {
            for i in 0..8 {
                a[i] += v[i];
            }
        }
        a
    };
    let tap_total = sum(&t);
    if plan.scenario.starts_with("c17.worker_recorders") {
        // Σ over workers (recorder now) + Σ snapshots pushed (drained by the harness)
        let mut rec: BTreeMap<IpAddr, [u64; 8]> = out.ctx.drained.clone();
        let mut agg_total = [0u64; 8];
        for s in out.ctx.snaps.values() {
            for (ip, c) in &s.entries {
                let e = rec.entry(*ip).or_insert([0; 8]);
                for i in 0..8 {
                    e[i] += c[i];
                }
            }
            let a = [s.rfc, s.classic, s.invalid, s.health, s.rfc_resp, s.classic_resp, s.bytes, s.failed];
            for i in 0..8 {
                agg_total[i] += a[i];
            }
        }
        let limit = spec.stats_limit.unwrap_or(5_000_000) as u64;
        let distinct_ips = t.len() as u64;
        if per_client {
            if out.ctx.max_unique > limit {
                co.violate("C17", "stats_limit_exceeded", "C17|stats_limit_exceeded".into(), format!("a recorder tracked {} addresses, the limit is {}", out.ctx.max_unique, limit));
            }
            let may_overflow = distinct_ips > limit || (distinct_ips == limit && limit < 100);
            for (ip, want) in &t {
                let got = rec.get(ip).copied().unwrap_or([0; 8]);
                for i in 0..8 {
                    let bad = if may_overflow { got[i] > want[i] } else { got[i] != want[i] };
                    if bad {
                        co.violate(
                            "C17",
                            "stats_not_conserved",
                            format!("C17|stats_not_conserved|recorder=per_client|counter={}{}", KINDS[i], if may_overflow { "|overflowing" } else { "" }),
                            format!("address {}: recorded {} = {} (recorders now + pushed snapshots), the kernel saw {}{}", ip, KINDS[i], got[i], want[i], if may_overflow { " (limit reached: recorded may only be lower)" } else { "" }),
                        );
                    }
                }
            }
            for ip in rec.keys() {
                if !t.contains_key(ip) {
                    co.violate("C17", "stats_not_conserved", "C17|stats_phantom_address".into(), format!("statistics exist for {}, which never sent anything", ip));
                }
            }
            // "exactly once, in its counter or in the overflow count, never both": every event kind
            // except the byte count is one event. Overflow counts are reset with each published
            // snapshot, so what earlier epochs turned away is only known from below; without a
            // reset the equation is exact.
            const EVENT_KINDS: [usize; 7] = [0, 1, 2, 3, 4, 5, 7];
            let events: u64 = EVENT_KINDS.iter().map(|&i| tap_total[i]).sum();
            let counted: u64 = rec.values().map(|c| EVENT_KINDS.iter().map(|&i| c[i]).sum::<u64>()).sum();
            let overflowed: u64 = out.ctx.snaps.values().map(|s| s.overflows + s.overflows_before_resets).sum();
            if counted + overflowed > events {
                co.violate(
                    "C17",
                    "stats_not_conserved",
                    "C17|stats_not_conserved|recorder=per_client|counted_and_overflowed".into(),
                    format!("{} events happened, but the per-client counters hold {} and the overflow counts at least {}: some event is in both", events, counted, overflowed),
                );
            } else if out.ctx.drained_snapshots == 0 && counted + overflowed != events {
                co.violate(
                    "C17",
                    "stats_not_conserved",
                    "C17|stats_not_conserved|recorder=per_client|neither_counted_nor_overflowed".into(),
                    format!("{} events happened and no snapshot was published, but the per-client counters hold {} and the overflow counts {}", events, counted, overflowed),
                );
            }
            // an interval's turned-away events belong to that interval: a recorder that has just
            // been cleared (no address tracked) starts the next interval with an overflow count of 0
            let stale: u64 = out.ctx.snaps.values().map(|s| s.overflows_on_empty).max().unwrap_or(0);
            if stale > 0 {
                co.violate(
                    "C17",
                    "stats_not_conserved",
                    "C17|stats_not_conserved|recorder=per_client|overflow_count_survives_clear".into(),
                    format!("a recorder tracking no address at all (just cleared) reports {} overflowed events: they were counted in an earlier interval already", stale),
                );
            }
            if out.ctx.snaps.values().any(|s| s.overflows_before_resets > 0) {
                co.probe("overflow_count_reset_by_a_published_snapshot");
            }
            if overflowed > 0 {
                co.probe("stats_overflow_counted");
                if out.ctx.drained_snapshots == 0 {
                    co.probe("stats_overflow_counted_exact_equation");
                }
            }
            if may_overflow {
                co.probe("stats_overflow_path");
            }
            if out.ctx.drained_snapshots > 0 {
                co.probe("timer_snapshot_pushed");
            }
            if out.ctx.drained_snapshots >= 2 {
                co.probe("timer_fired_ge_2");
            }
        } else {
            for i in 0..8 {
                if agg_total[i] != tap_total[i] {
                    co.violate("C17", "stats_not_conserved", format!("C17|stats_not_conserved|recorder=aggregated|counter={}", KINDS[i]), format!("aggregated {} = {}, the kernel saw {}", KINDS[i], agg_total[i], tap_total[i]));
                }
            }
            let valid: u64 = out.ctx.snaps.values().map(|s| s.valid).sum();
            let resp: u64 = out.ctx.snaps.values().map(|s| s.responses).sum();
            if valid != tap_total[0] + tap_total[1] || resp != tap_total[4] + tap_total[5] {
                co.violate("C17", "stats_not_conserved", "C17|stats_not_conserved|recorder=aggregated|totals".into(), format!("total_valid_requests {} / total_responses_sent {} vs kernel {} / {}", valid, resp, tap_total[0] + tap_total[1], tap_total[4] + tap_total[5]));
            }
        }
        if tap_total[7] > 0 {
            co.probe("send_failure_path");
        }
    } else {
        // F mode: Σ of the reporter's CSV rows per address = traffic per address
        let (csv_sum, files) = csv_sums(&mut co, out);
        if files >= 20 {
            co.probe("reporter_wrote_20_or_more_files");
        }
        if files >= 6 && plan.p("many_reports_exact") == 1 {
            co.probe("six_or_more_reports_judged_exactly");
        }
        // every report is a file of its own: creating a path a second time truncates what an
        // earlier report persisted (reports are at least a second apart and the clock does not
        // step in this scenario, so names with a one-second resolution cannot repeat)
        let mut created: std::collections::BTreeSet<&str> = Default::default();
        for rec in &out.world.history {
            if let dsim::Ev::FileCreate { path, ok: true } = &rec.ev {
                if path.ends_with(".csv.zst") && !created.insert(path.as_str()) {
                    co.violate("C17", "stats_not_conserved", "C17|stats_file_overwritten".into(), format!("at {:.3}s the reporter created {} a second time: the statistics persisted there by an earlier report are gone", rec.t as f64 / 1e9, path));
                }
            }
        }
        if files > 0 {
            co.probe("reporter_wrote_csv");
        }
        if files >= 2 {
            co.probe("reporter_wrote_ge_2_files");
        }
        if out.world.fault_fired.get("disk_stall").copied().unwrap_or(0) > 0 {
            co.probe("report_on_a_stalling_disk");
        }
        let workers_pushing: std::collections::BTreeSet<usize> = v.recvs.iter().map(|q| q.task).collect();
        if workers_pushing.len() >= 2 {
            co.probe("reporter_merged_snapshots_from_ge_2_workers");
        }
        let server_alive = out.ctx.server_procs.first().map(|p| out.world.procs[*p].exit.is_none()).unwrap_or(false);
        let limit = spec.stats_limit.unwrap_or(5_000_000) as u64;
        let mut may_overflow = t.len() as u64 >= limit;
        if may_overflow {
            co.probe("stats_overflow_path_reporter");
        }
        // The stats queue holds 2 snapshots per worker and force_push displaces the oldest one by
        // design. If the reporter stayed away from the queue (its 1 s sleep plus the time inside
        // report()) for as long as it takes a worker to publish twice more, a snapshot may have
        // been displaced: then what is persisted may only be lower.
        let w = &out.world;
        let visits: Vec<u64> = w
            .history
            .iter()
            .filter(|r| r.task.map(|t| w.procs[w.tasks[t].proc].sut).unwrap_or(false))
            .filter(|r| matches!(r.ev, dsim::Ev::Sleep { .. }))
            .map(|r| r.t)
            .collect();
        let longest_absence = visits.windows(2).map(|p| p[1] - p[0]).max().unwrap_or(0);
        let publish_period = (spec.status_interval.unwrap_or(600) as u64 * dsim::SEC / 10).saturating_sub(256 * dsim::MS);
        if longest_absence + 300 * dsim::MS >= 2 * publish_period {
            may_overflow = true;
            co.probe("reporter_absent_long_enough_to_displace");
        }
        if server_alive && !t.is_empty() {
            for (ip, want) in &t {
                let got = csv_sum.get(ip).copied().unwrap_or([0; 8]);
                for i in 0..8 {
                    // once a worker's limit is reached events are counted as overflow instead:
                    // what is persisted may then only be lower
                    let bad = if may_overflow { got[i] > want[i] } else { got[i] != want[i] };
                    if bad {
                        co.violate("C17", "stats_not_conserved", format!("C17|stats_not_conserved|reporter_csv|counter={}{}", KINDS[i], if may_overflow { "|overflowing" } else { "" }), format!("address {}: the persisted statistics say {} = {}, the kernel saw {} ({} file(s))", ip, KINDS[i], got[i], want[i], files));
                    }
                }
            }
            for ip in csv_sum.keys() {
                if !t.contains_key(ip) {
                    co.violate("C17", "stats_not_conserved", "C17|stats_phantom_address".into(), format!("persisted statistics exist for {}, which never sent anything", ip));
                }
            }
        }
    }
    co.count("datagrams", v.recvs.len() as u64);
    co.sample = Some(serde_json::json!({
        "scenario": plan.scenario, "seed": plan.seed, "workers": spec.workers, "client_stats": spec.client_stats, "stats_limit": spec.stats_limit, "ip_pool": plan.p("ip_pool"), "status_interval": spec.status_interval,
        "kernel_totals": KINDS.iter().zip(tap_total.iter()).map(|(k, v)| (k.to_string(), *v)).collect::<BTreeMap<_, _>>(),
        "snapshots_drained": out.ctx.drained_snapshots, "addresses": t.len(),
        "verdict": if co.violations.is_empty() { "ok".to_string() } else { co.violations[0].signature.clone() },
    }));
    co
}

pub fn property() -> Property {
    Property {
        id: "C17",
        level: "exploration",
        budget,
        gen,
        check,
        finalize: no_finalize,
        rule: "one evaluation = one simulated execution: (W) 1-4 real Server workers with per-client or aggregated recorders, a per-run address-tracking limit {2,3,8,5000000} (hook H7), an address pool of 1-6 source addresses over 24 sockets, status timers of 100-300 ms pushing snapshots to the real queue (drained by a harness task), injected send failures and health connections; or (F) the real main() with client_stats on, the real Reporter thread merging the workers' snapshots and persisting zstd CSV files to the in-memory file system; or (D, one run in twelve) the real Reporter alone on a queue of its own, a harness task in the role of the workers handing it snapshots with chosen magnitudes (beyond 32 bits for bytes) at seeded times, every persisted per-address sum equal to what was handed over; the kernel tap (datagrams each worker received and answered, bytes, failed sends, accepted health connections, per source address) is the reference; non-trivial = workers received datagrams; distinct = distinct schedule fingerprints",
        assumptions: &["claimed part: system-level conservation; bounded-exhaustive enumeration of recorder call sequences on bare objects is input enumeration and is not claimed", "the server's own accept/reject decision per datagram is read from its behaviour (answered = valid of that protocol, unanswered = invalid)", "status_interval >= 20 s in F mode so that the bounded stats queue (2 x workers) never displaces a snapshot"],
        real: REAL_F,
        stub: STUB,
    }
}
