//! C19 — SIGINT or SIGTERM at any moment stops the server cleanly and promptly (mode F).
//! The signal instants of a baseline execution are enumerated (thorough) or stratified (quick).

use super::common::*;
use super::fmode::*;
use super::*;
use crate::view::View;
use std::cell::RefCell;

/// signal instants per baseline
fn per_baseline(t: Tier) -> u64 {
    match t {
        Tier::Quick => 40,
        Tier::Thorough => 600,
    }
}

fn budget(t: Tier) -> u64 {
    match t {
        Tier::Quick => 49 * per_baseline(t),
        Tier::Thorough => 252 * per_baseline(t),
    }
}

const LOADS: [&str; 7] = ["idle", "closed_loop", "flood", "idle_long", "health_fd_exhausted", "recv_errors", "stats_dir_gone"];

fn baseline(b: u64) -> Plan {
    let bseed = Rng::derive(crate::driver::base_seed().wrapping_add(b), "c19-baseline").next_u64() >> 1;
    let mut rng = Rng::derive(bseed, "c19");
    let load = LOADS[(b % 7) as usize];
    let mut plan = Plan::new("C19", &format!("c19.{}", load), bseed);
    let mut s = ServerSpec::basic(Mode::F, &random_seed_hex(&mut rng));
    s.workers = [1i64, 4, 16][((b / 7) % 3) as usize];
    s.source = if rng.chance(1, 2) { ConfigSource::File } else { ConfigSource::Env };
    file_layout(&mut rng, &mut s);
    if (b / 21) % 2 == 1 || load == "stats_dir_gone" {
        s.client_stats = Some("on".into());
        s.persist_dir = Some("/tmp".into());
        // (0 is accepted by the server: statistics are then published and reported as often as
        // the loops come round)
        s.status_interval = Some(*rng.pick(&[1i64, 10, 0]));
    }
    s.batch_size = *rng.pick(&[1i64, 16, 64]);
    world_knobs(&mut rng, &mut plan, false);
    plan.world.rcv_cap = 512;
    plan.params.insert("baseline".into(), b as i64);
    plan.params.insert("sig".into(), if rng.chance(1, 2) { 2 } else { 15 });
    match load {
        "idle" => {}
        "recv_errors" => {
            // a few closed-loop clients, and from some moment on every recv_from on a non-empty
            // socket fails (ENOBUFS-like condition that persists), possibly lifted later
            let clients = 1 + rng.below(4) as u32;
            for c in 0..clients {
                plan.step(20_000 + rng.below(500), Action::ClosedLoop { sock: c, protos: vec![P::Classic, P::Ietf], count: 10_000, think_us: *rng.pick(&[2_000u64, 10_000]), timeout_ms: 200 });
            }
            // (the unchanged server busy-loops while this lasts: keep the stretch before the
            // latest signal instant short and the machine not faster than nominal)
            plan.world.cost_scale = plan.world.cost_scale.max(1000);
            let t0 = 180_000 + rng.below(60_000);
            plan.step(t0, Action::SetFault { kind: "recv_err".into(), permille: *rng.pick(&[1000u32, 1000, 500]) });
            if rng.chance(1, 3) {
                plan.step(t0 + 300_000 + rng.below(2_000_000), Action::SetFault { kind: "recv_err".into(), permille: 0 });
            }
        }
        "stats_dir_gone" => {
            // per-client statistics with a one-second interval, steady traffic, and from some
            // moment on the statistics file cannot be created any more (directory removed, disk
            // gone): the reporter's handling of that must not delay the exit
            s.status_interval = Some(1);
            let clients = 1 + rng.below(4) as u32;
            for c in 0..clients {
                plan.step(20_000 + rng.below(500), Action::ClosedLoop { sock: c, protos: vec![P::Classic, P::Ietf], count: 10_000, think_us: *rng.pick(&[2_000u64, 10_000]), timeout_ms: 200 });
            }
            if rng.chance(1, 2) {
                plan.step(100_000 + rng.below(400_000), Action::SetFault { kind: "file_create_err".into(), permille: 1000 });
            } else {
                // ... or the disk is slow: every file operation stalls, a reporter round takes
                // longer than the second it sleeps between rounds (the time the disk takes after
                // the signal is added to the exit deadline)
                plan.scenario = "c19.stats_slow_disk".into();
                plan.world.faults.disk_stall = 1000;
                plan.world.faults.disk_stall_max_ms = *rng.pick(&[700u32, 1500]);
            }
        }
        "health_fd_exhausted" => {
            // health checks while the process is out of file descriptors (accept fails with EMFILE
            // and the connection stays queued), some requests as well
            s.health_port = Some(8000);
            let t0 = 20_000 + rng.below(30_000);
            plan.step(t0, Action::FdExhaustion { on: true });
            for k in 0..(1 + rng.below(3)) {
                plan.step(t0 + 1_000 + k * rng.below(40_000), Action::Health { id: k as u32, reset: false });
            }
            let mut ctr = bseed ^ 0xfd;
            for k in 0..rng.below(6) {
                plan.step(t0 + k * 7_000, Action::Send { sock: k as u32, req: valid_spec(&mut rng, &mut ctr) });
            }
            if rng.chance(1, 2) {
                plan.step(t0 + 120_000 + rng.below(100_000), Action::FdExhaustion { on: false });
            }
        }
        "idle_long" => {
            // a server that has been idle for a long time (up to a simulated minute), optionally
            // after a little traffic at the start. With per-client statistics the interval is long
            // here (a round of statistics every 1 or 6 s) and there is traffic to publish, so that
            // the signal also meets a reporter that has collected a round and waits for the next
            let stats_on = s.client_stats.is_some();
            if stats_on {
                s.status_interval = Some(*rng.pick(&[10i64, 60, 60]));
            }
            if stats_on || rng.chance(1, 2) {
                let mut ctr = bseed ^ 0x1d1e;
                for k in 0..(1 + rng.below(8)) {
                    plan.step(20_000 + k * 300, Action::Send { sock: k as u32, req: valid_spec(&mut rng, &mut ctr) });
                }
            }
        }
        "closed_loop" => {
            {
                // somebody has been asking since before the server came up: the first worker to
                // bind answers while the others (and main) are still starting
                plan.step(100, Action::Flood { sock: 99, proto: if rng.chance(1, 2) { P::Classic } else { P::Ietf }, interval_ns: 300_000, count: 300, payload: Some("valid".into()) });
            }
            let clients = 1 + rng.below(12) as u32;
            for c in 0..clients {
                plan.step(20_000 + rng.below(500), Action::ClosedLoop { sock: c, protos: vec![P::Classic, P::Ietf], count: 10_000, think_us: *rng.pick(&[500u64, 2_000, 5_000]), timeout_ms: 200 });
            }
        }
        _ => {
            // open-loop flood of one worker: inter-arrival time below the modelled service time,
            // so the receive queue never empties
            plan.world.cost_scale = 100_000; // a slow node: ~0.5 ms per request
            plan.world.flow_hash = Some(rng.next_u64());
            plan.world.round_robin = false;
            plan.world.rcv_cap = 64;
            // what floods in: valid requests, or datagrams no worker will answer (another server's
            // SRV, garbage, empty, too short), or both alternating
            let payload = ["valid", "wrong_srv", "mixed", "garbage", "empty", "short", "runts"][((b / 7) % 7) as usize];
            plan.params.insert(format!("flood_{}", payload), 1);
            if payload == "runts" {
                // half of these are answered: slower than for valid floods, but a full pass
                // (16 batches) must still fit the exit deadline twice over (a worker may
                // legitimately finish the pass it is in and make another before it looks at the flag)
                plan.world.cost_scale = 200_000;
            } else if payload != "valid" {
                // turning a datagram away is several times cheaper than answering one: an even
                // slower node, so that the queue does not empty between two unanswerable arrivals
                plan.world.cost_scale = 600_000;
            }
            plan.step(20_000, Action::Flood { sock: 0, proto: if rng.chance(1, 2) { P::Classic } else { P::Ietf }, interval_ns: 200_000, count: 20_000, payload: Some(payload.into()) });
        }
    }
    // the baseline covers 250 ms of serving (a simulated minute for idle_long); runs with a
    // signal go on for 3.6 s after the end of the baseline
    plan.world.horizon_ms = match load {
        "idle_long" => 20_000 + rng.below(40_000),
        // long enough for the reporter to run into the failing file creation a few times
        "stats_dir_gone" => 2_500 + rng.below(3_000),
        _ => 270,
    };
    let stats_on = s.client_stats.is_some();
    if rng.chance(1, if stats_on { 2 } else { 4 }) {
        // the wall clock is stepped while the server runs, early in the baseline so that most
        // signal instants come after it (exit must not depend on a wall-clock instant; with the
        // reporter running, mostly backwards: a schedule kept on the wall clock then lies in the future)
        let span = (plan.world.horizon_ms * 1000).min(150_000);
        let back = [-3_600_000i64, -61_000, -11_000, -1_500];
        let any = [-3_600_000i64, -61_000, -1000, 1000, 61_000, 86_400_000];
        let ms = if stats_on && rng.chance(3, 4) { *rng.pick(&back) } else { *rng.pick(&any) };
        plan.step(25_000 + rng.below(span.saturating_sub(25_000).max(1)), Action::WallStepMs(ms));
    }
    plan.server = Some(s);
    plan
}

thread_local! {
    static BASE: RefCell<BTreeMap<u64, (u64, u64)>> = RefCell::new(BTreeMap::new());
}

/// (step at which the first worker is serving, total steps) of the baseline execution: "at any
/// moment" includes the moments at which some workers are still starting
fn baseline_extent(b: u64) -> (u64, u64) {
    if let Some(x) = BASE.with(|m| m.borrow().get(&b).copied()) {
        return x;
    }
    let plan = baseline(b);
    // the baseline itself runs in a forked child, like every other execution
    let x: (u64, u64) = crate::driver::isolated(|| {
        let out = crate::exec::run(&plan, dsim::Tape::search(plan.seed));
        let w = &out.world;
        let workers = plan.server.as_ref().unwrap().workers as usize;
        // a worker is serving once it has armed its statistics timer (the last thing `Server::new`
        // does before the event loop): the first TimerArm of each task of the server process
        let mut serving: BTreeMap<usize, u64> = BTreeMap::new();
        for rec in &w.history {
            if let (dsim::Ev::TimerArm { .. }, Some(t)) = (&rec.ev, rec.task) {
                if w.procs[w.tasks[t].proc].sut {
                    serving.entry(t).or_insert(rec.step);
                }
            }
        }
        let start = if serving.len() >= workers { *serving.values().min().unwrap() + 1 } else { w.steps };
        (start, w.steps)
    })
    .unwrap_or((u64::MAX / 4, u64::MAX / 4));
    BASE.with(|m| m.borrow_mut().insert(b, x));
    x
}

fn gen(seed: u64, idx: u64, tier: Tier) -> Plan {
    let k = per_baseline(tier);
    let b = idx / k;
    let j = idx % k;
    let mut plan = baseline(b);
    let (start, total) = baseline_extent(b);
    let mut rng = Rng::derive(seed, "c19-instant");
    let span = total.saturating_sub(start).max(1);
    // thorough with span <= k: every instant; otherwise stratified with a seeded offset per stratum
    // (the first eight instants of a stratified baseline fall into its first fiftieth: the
    // start-up of the other workers, where things are installed and registered one after another)
    let head = (span / 50).max(8).min(span);
    let step = if span <= k {
        start + j % span
    } else if j < 8 {
        start + head * j / 8 + rng.below((head / 8).max(1))
    } else {
        start + span * j / k + rng.below((span / k).max(1))
    };
    plan.params.insert("signal_step".into(), step as i64);
    plan.params.insert("baseline_steps".into(), total as i64);
    let sig = plan.p("sig") as i32;
    plan.step(0, Action::SignalAtStep { step, sig });
    if rng.chance(1, 5) {
        // a second signal shortly afterwards
        plan.step(0, Action::SignalAtStep { step: step + 1 + rng.below(200), sig: if rng.chance(1, 2) { 2 } else { 15 } });
    }
    plan.world.horizon_ms += 3_600;
    plan
}

fn check(plan: &Plan, out: &RunOut) -> CheckOut {
    let mut co = CheckOut::default();
    let spec = plan.server.as_ref().unwrap();
    let load = plan.scenario.trim_start_matches("c19.").to_string();
    let bs = boots(out);
    let b = match bs.first() {
        Some(b) => b.clone(),
        None => return co,
    };
    let w = &out.world;
    let (sig_seq, t_sig, handled) = match b.signal_at {
        Some(x) => x,
        None => {
            // the signal instant lay beyond the end of this execution — or the server was gone
            // before it: a process that has ended by itself cannot be stopped cleanly any more
            if let (Some(code), true) = (b.exit, b.exit != Some(0)) {
                co.nontrivial = true;
                co.violate("C19", "exit_status_nonzero", format!("C19|server_gone_before_signal|load={}|code={}", load, code), format!("the server process ended by itself with status {} ({}) before the signal was due", code, b.exit_how));
                check_no_panic(&mut co, "C19", out);
            }
            return co;
        }
    };
    let _ = sig_seq;
    if !handled {
        // before the handler is installed a signal simply ends the process: nothing to judge —
        // unless the server was already serving, which it must not be without one
        let served = w.history.iter().any(|r| r.t <= t_sig && matches!(&r.ev, dsim::Ev::UdpSend { ok: true, .. }) && r.task.map(|t| w.procs[w.tasks[t].proc].sut).unwrap_or(false));
        if served {
            co.nontrivial = true;
            co.violate("C19", "exit_status_nonzero", format!("C19|signal_not_handled_while_serving|load={}", load), format!("{} at {:.6}s met no handler although the server had already answered a request: the process was ended by the signal", if plan.p("sig") == 2 { "SIGINT" } else { "SIGTERM" }, t_sig as f64 / 1e9));
        }
        co.probe("signal_before_handler_installed");
        return co;
    }
    co.nontrivial = true;
    monitor_leak(&mut co, out);
    let stats = if spec.client_stats.is_some() { "on" } else { "off" };
    let wcls = spec.workers;
    // (file operations that were still going on at the signal or began after it take the time the
    // disk takes: not the program's doing)
    let disk_ns: u64 = w.history.iter().filter_map(|r| match r.ev { dsim::Ev::DiskWait { ns } if r.t + ns > t_sig && ns > dsim::MS => Some(ns), _ => None }).sum();
    // (a signal that arrives while some workers are still being started is judged from the moment
    // the last of them is up: until then a worker has no loop in which to look at the flag, and how
    // long start-up takes is the machine's doing — the flood baselines run on a node hundreds of
    // times slower than nominal)
    let t_up = b.worker_tasks.iter().filter_map(|(t, _)| w.history.iter().find(|r| r.task == Some(*t) && matches!(r.ev, dsim::Ev::TimerArm { .. })).map(|r| r.t)).max().unwrap_or(0);
    let deadline = t_sig.max(t_up) + 3 * dsim::SEC + disk_ns;
    // worker threads still running at the deadline
    let ended_at = |t: usize| -> Option<u64> { w.history.iter().find(|r| matches!(&r.ev, dsim::Ev::TaskEnd { task, .. } if *task == t)).map(|r| r.t) };
    let stuck_ids: Vec<usize> = b.worker_tasks.iter().map(|(t, _)| *t).filter(|t| ended_at(*t).map(|e| e > deadline).unwrap_or(true)).collect();
    let stuck: Vec<String> = stuck_ids.iter().map(|t| w.tasks[*t].name.clone()).collect();
    // Which failure is it? A worker that came back from poll no later than one poll timeout
    // (100 ms, plus slack) after the signal and from then to the deadline kept receiving without
    // ever seeing WouldBlock is inside the drain loop of process_events: the recorded finding.
    // Anything else is a different defect and keeps its own signature.
    let drain_busy = !stuck_ids.is_empty()
        && stuck_ids.iter().all(|t| {
            let evs: Vec<&dsim::Rec> = w.history.iter().filter(|r| r.task == Some(*t) && r.t <= deadline).collect();
            let t0 = evs.iter().rev().find(|r| matches!(r.ev, dsim::Ev::PollRet { .. })).map(|r| r.t).unwrap_or(0);
            let after: Vec<&&dsim::Rec> = evs.iter().filter(|r| r.t > t0).collect();
            let received = after.iter().filter(|r| matches!(r.ev, dsim::Ev::UdpRecv { .. })).count();
            let saw_empty = after.iter().any(|r| matches!(r.ev, dsim::Ev::UdpRecvEmpty { .. }));
            t0 <= t_sig + 150 * dsim::MS && received > 0 && !saw_empty
        });
    let late_sig = if drain_busy { "C19|exit_deadline|receive_queue_never_empty".to_string() } else { format!("C19|exit_deadline|load={}", load) };
    match (b.exit, b.exit_at) {
        (Some(code), Some(at)) => {
            if code != 0 {
                co.violate("C19", "exit_status_nonzero", format!("C19|exit_status_nonzero|load={}|code={}", load, code), format!("after the signal the process ended with status {} ({})", code, b.exit_how));
            }
            if at > deadline {
                co.violate("C19", "exit_deadline", late_sig.clone(), format!("exit took {:.3} simulated s after the signal ({} workers, client_stats {}, load {}); threads still running at the 3 s deadline: {:?}", (at - t_sig) as f64 / 1e9, wcls, stats, load, stuck));
            }
            co.count("exit_latency_ms_sum", (at.saturating_sub(t_sig)) / dsim::MS);
            co.count("exits", 1);
        }
        _ => {
            if w.now >= deadline {
                co.violate(
                    "C19",
                    "exit_deadline",
                    late_sig.clone(),
                    format!("{} delivered at {:.6}s ({} workers, client_stats {}, load {}): the process is still running {:.1} simulated s later; threads still alive: {:?}", if plan.p("sig") == 2 { "SIGINT" } else { "SIGTERM" }, t_sig as f64 / 1e9, wcls, stats, load, (w.now - t_sig) as f64 / 1e9, stuck),
                );
            }
        }
    }
    for (name, msg, loc) in &b.panics {
        co.violate("C19", "panic_on_shutdown", format!("C19|panic_on_shutdown|{}", crate::view::short_site(msg)), format!("task {} panicked at {}: {}", name, loc, msg));
    }
    if b.stderr.contains("panicked") {
        co.violate("C19", "panic_on_shutdown", "C19|panic_output".into(), "panic output on stderr".into());
    }
    // every response emitted before exit is a complete valid response
    let v = View::build(out);
    check_validity(&mut co, "C19", &v);
    // reach
    let in_batch = v.batches.iter().any(|bt| {
        bt.sends.len() >= 2 && {
            let first = v.sends[bt.sends[0]].t;
            let last = v.sends[*bt.sends.last().unwrap()].t;
            first <= t_sig && t_sig <= last
        }
    });
    if in_batch {
        co.probe("signal_while_batch_half_sent");
    }
    if w.history.iter().filter(|r| matches!(r.ev, dsim::Ev::Signal { .. })).count() >= 2 {
        co.probe("two_signals");
    }
    co.probe(match load.as_str() {
        "idle" => "load_idle",
        "closed_loop" => "load_closed_loop",
        "idle_long" => "load_idle_long",
        "health_fd_exhausted" => "load_health_fd_exhausted",
        "recv_errors" => "load_recv_errors",
        "stats_dir_gone" => "load_stats_dir_gone",
        "stats_slow_disk" => "load_stats_slow_disk",
        _ => "load_flood",
    });
    co.sample = Some(serde_json::json!({
        "scenario": plan.scenario, "baseline": plan.p("baseline"), "baseline_steps": plan.p("baseline_steps"), "signal_step": plan.p("signal_step"), "signal": plan.p("sig"),
        "workers": spec.workers, "client_stats": stats, "signal_at_s": t_sig as f64 / 1e9, "exit": b.exit, "exit_after_ms": b.exit_at.map(|a| (a.saturating_sub(t_sig)) / dsim::MS),
        "responses_before_exit": v.sends.len(),
        "verdict": if co.violations.is_empty() { "ok".to_string() } else { co.violations[0].signature.clone() },
    }));
    co
}

pub fn property() -> Property {
    Property {
        id: "C19",
        level: "exploration",
        budget,
        gen,
        check,
        finalize: no_finalize,
        rule: "baselines = real main() booted with num_workers {1,4,16} x client_stats off/on x load {idle, long idle (20-60 simulated s), health checks while accept() fails with EMFILE, closed-loop clients while recv_from keeps failing, closed-loop clients with per-client statistics while the statistics file can no longer be created or every file operation stalls (a reporter round longer than its one-second sleep), closed-loop clients, open-loop flood of one worker with inter-arrival time below the modelled service time, carrying valid requests / another server's SRV / both alternating / garbage / empty datagrams / too-short requests / both protocols alternating with runt datagrams}; for each baseline (fixed plan + tape) the scheduling points after every worker has started serving are counted and SIGINT or SIGTERM is delivered at point k — 40 stratified points per baseline (quick) or 600 (thorough; every point when the baseline has fewer); a fifth of the runs deliver a second signal; the run continues 3.6 simulated s; non-trivial = the handler ran; distinct = distinct schedule fingerprints",
        assumptions: &["exit deadline: 3 simulated seconds after the handler ran (100 ms poll timeout + 1 s reporter sleep + margin)", "flood verdicts depend on the service-time model: ~0.5 ms per request against one datagram every 0.2 ms"],
        real: REAL_F,
        stub: STUB,
    }
}
