//! simcheck — deterministic simulation checks for int08h/roughenough.

mod driver;
mod exec;
mod plan;
mod reqs;
mod scen;
mod view;

use scen::Tier;

fn tier_of(s: &str) -> Tier {
    match s {
        "thorough" => Tier::Thorough,
        _ => Tier::Quick,
    }
}

fn main() {
    // deterministic local time for the client binary
    std::env::set_var("TZ", "UTC");
    let args: Vec<String> = std::env::args().collect();
    let cmd = args.get(1).map(|s| s.as_str()).unwrap_or("");
    let code = match cmd {
        "check" => {
            let id = args.get(2).expect("property id");
            let tier = tier_of(args.get(3).map(|s| s.as_str()).or(std::env::var("VERIF_TIER").ok().as_deref()).unwrap_or("quick"));
            driver::check(id, tier)
        }
        "worker" => {
            let id = &args[2];
            let tier = tier_of(&args[3]);
            let base: u64 = args[4].parse().unwrap();
            let start: u64 = args[5].parse().unwrap();
            let stride: u64 = args[6].parse().unwrap();
            let total: u64 = args[7].parse().unwrap();
            let deadline: f64 = args[9].parse().unwrap();
            driver::worker(id, tier, base, start, stride, total, &args[8], deadline);
            0
        }
        "replay" => driver::replay_file(args.get(2).expect("replay file")),
        "determinism" => {
            // simcheck determinism <ID> <tier> <start> <count> [out-file]
            let id = &args[2];
            let tier = tier_of(&args[3]);
            let start: u64 = args[4].parse().unwrap();
            let count: u64 = args[5].parse().unwrap();
            let (ok, digests) = driver::determinism(id, tier, start, count);
            if let Some(out) = args.get(6) {
                let text: String = digests.iter().map(|(i, d)| format!("{} {}\n", i, d)).collect();
                std::fs::write(out, text).unwrap();
            }
            println!("determinism {} idx {}..{}: {}", id, start, start + count, if ok { "ok" } else { "FAILED" });
            if ok {
                0
            } else {
                2
            }
        }
        "one" => {
            // simcheck one <ID> <tier> <idx>: run one index, print trace and verdicts
            let id = &args[2];
            let tier = tier_of(&args[3]);
            let idx: u64 = args[4].parse().unwrap();
            let prop = scen::find(id).expect("unknown property");
            let seed = scen::run_seed(driver::base_seed(), idx);
            let plan = (prop.gen)(seed, idx, tier);
            if args.iter().any(|a| a == "--plan") {
                println!("{}", serde_json::to_string_pretty(&plan).unwrap());
            }
            let max = if args.iter().any(|a| a == "--full") { usize::MAX / 2 } else { 200 };
            let r = driver::run_isolated(&prop, &plan, driver::TapeSpec::Search(plan.seed), false, max);
            for l in &r.trace {
                println!("{}", l);
            }
            println!("outcome {} now {:.6}s steps {} nontrivial {} crashed {:?}", r.outcome, r.now as f64 / 1e9, r.steps, r.co.nontrivial, r.crashed);
            println!("sample {}", r.co.sample.as_ref().map(|s| s.to_string()).unwrap_or_default());
            for v in &r.co.violations {
                println!("violation {} — {}", v.signature, v.detail);
            }
            0
        }
        "minimise" => {
            // simcheck minimise <replay-file>: shrink further and rewrite next to it
            let path = args.get(2).expect("replay file");
            let rep: plan::Replay = serde_json::from_slice(&std::fs::read(path).unwrap()).unwrap();
            let prop = scen::find(&rep.property).expect("unknown property");
            let (mp, mt) = driver::minimise(&prop, &rep.plan, &rep.tape, &rep.violation.signature, 60.0);
            println!("steps {} -> {}, tape {} -> {}", rep.plan.steps.len(), mp.steps.len(), rep.tape.len(), mt.len());
            match driver::write_replay(&prop, &mp, &mt, &rep.violation) {
                Some(p) => println!("wrote {}", p.display()),
                None => println!("did not reproduce"),
            }
            0
        }
        "list" => {
            for p in scen::registry() {
                println!("{}", p.id);
            }
            0
        }
        _ => {
            eprintln!("usage: simcheck check <ID> <quick|thorough> | replay <file> | determinism <ID> <tier> <start> <count> | one <ID> <tier> <idx> | list");
            2
        }
    };
    std::process::exit(code);
}
