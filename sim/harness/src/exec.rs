//! Execute a plan + tape in a fresh simulated world and hand back the world and the harness-side
//! context (what was sent by whom, reference-server records, statistics snapshots).

use crate::plan::*;
use crate::reqs;
use dsim::rng::Rng;
use refimpl as r;
use std::cell::RefCell;
use std::collections::BTreeMap;
use std::net::{IpAddr, Ipv4Addr, SocketAddr};
use std::sync::Arc;
use std::time::Duration;

#[derive(Clone, Debug)]
pub struct SentReq {
    pub step: usize,
    pub sock: u32,
    pub sim_sock: dsim::SockId,
    pub dgram: u64,
    pub bytes: Vec<u8>,
    pub at: dsim::Ns,
}

#[derive(Clone, Debug, Default)]
pub struct StatSnap {
    pub per_client: bool,
    pub valid: u64,
    pub classic: u64,
    pub rfc: u64,
    pub invalid: u64,
    pub health: u64,
    pub responses: u64,
    pub classic_resp: u64,
    pub rfc_resp: u64,
    pub bytes: u64,
    pub failed: u64,
    pub unique: u64,
    /// the recorder's overflow count now
    pub overflows: u64,
    /// overflow counts seen just before each observed reset (a lower bound of what earlier epochs turned away)
    pub overflows_before_resets: u64,
    /// largest overflow count seen on a recorder that held no address at all (i.e. right after
    /// a published snapshot cleared it): must be 0, the table cannot be full when it is empty
    pub overflows_on_empty: u64,
    pub entries: Vec<(IpAddr, [u64; 8])>,
}

#[derive(Clone, Debug)]
pub struct RefExchange {
    pub ordinal: usize,
    pub proto: Option<r::Proto>,
    pub request: Vec<u8>,
    pub nonce: Vec<u8>,
    pub src: SocketAddr,
    pub honest: Vec<u8>,
    pub sent: Vec<Vec<u8>>,
    pub midp: u64,
}

#[derive(Default)]
pub struct Ctx {
    pub srv: Vec<u8>,
    pub long_pk: Vec<u8>,
    pub seed: Vec<u8>,
    pub server_addr: Option<SocketAddr>,
    pub client_proc: Option<dsim::ProcId>,
    pub socks: BTreeMap<u32, dsim::SockId>,
    pub sent: Vec<SentReq>,
    pub server_procs: Vec<dsim::ProcId>,
    pub client_procs: Vec<dsim::ProcId>,
    pub ref_exchanges: Vec<RefExchange>,
    pub ref_long_pk: Vec<u8>,
    pub snaps: BTreeMap<String, StatSnap>,
    /// largest number of tracked addresses any recorder snapshot showed
    pub max_unique: u64,
    /// per-address sums of every snapshot popped from the stats queue by the harness drain task
    pub drained: BTreeMap<IpAddr, [u64; 8]>,
    pub drained_snapshots: u64,
    /// cumulative totals pushed to the stats queue per worker (W mode, C17)
    pub health_conns: Vec<(u32, dsim::ConnId)>,
    pub closed_loop: Vec<ClosedLoopRec>,
    pub ip_pool: u32,
    /// snapshots a directly driven reporter's queue refused (must stay 0: the queue is sized for all)
    pub direct_refused: u64,
}

#[derive(Clone, Debug)]
pub struct ClosedLoopRec {
    pub sock: u32,
    pub sent: Vec<(Vec<u8>, dsim::Ns)>,
    pub got: Vec<(Vec<u8>, dsim::Ns)>,
    pub timeouts: u32,
    pub strays: u32,
    pub timed_out_requests: Vec<usize>,
}

thread_local! {
    pub static CTX: RefCell<Ctx> = RefCell::new(Ctx::default());
}

pub fn ctx<R>(f: impl FnOnce(&mut Ctx) -> R) -> R {
    CTX.with(|c| f(&mut c.borrow_mut()))
}

pub struct RunOut {
    pub world: dsim::World,
    pub outcome: dsim::Outcome,
    pub ctx: Ctx,
}

pub fn hex_decode(h: &str) -> Option<Vec<u8>> {
    if h.len() % 2 != 0 {
        return None;
    }
    (0..h.len() / 2).map(|i| u8::from_str_radix(&h[2 * i..2 * i + 2], 16).ok()).collect()
}

fn client_addr(sock: u32, pool: u32) -> SocketAddr {
    if pool == 0 {
        reqs::client_addr(sock)
    } else {
        let ip = Ipv4Addr::new(10, 1, 0, (sock % pool + 1) as u8);
        SocketAddr::new(IpAddr::V4(ip), 5000 + (sock % 50_000) as u16)
    }
}

fn ensure_client_sock(sock: u32) -> dsim::SockId {
    if let Some(s) = ctx(|c| c.socks.get(&sock).copied()) {
        return s;
    }
    let pool = ctx(|c| c.ip_pool);
    let id = dsim::with(|w| {
        let p = match ctx(|c| c.client_proc) {
            Some(p) => p,
            None => {
                let p = w.new_proc("clients", vec![], BTreeMap::new(), false);
                ctx(|c| c.client_proc = Some(p));
                p
            }
        };
        let s = w.udp_socket(p);
        w.socks[s].cap = 1 << 20;
        let a = client_addr(sock, pool);
        w.udp_bind(s, a).expect("client bind");
        if a.port() == 0 {
            // a raw socket: the source port stays 0
            w.socks[s].addr = Some(a);
        }
        s
    });
    ctx(|c| c.socks.insert(sock, id));
    id
}

pub fn level_of(n: u8) -> log::LevelFilter {
    match n {
        0 => log::LevelFilter::Off,
        1 => log::LevelFilter::Error,
        2 => log::LevelFilter::Warn,
        3 => log::LevelFilter::Info,
        4 => log::LevelFilter::Debug,
        _ => log::LevelFilter::Trace,
    }
}

// ------------------------------------------------------------------------------------------
// server start (W and F)
// ------------------------------------------------------------------------------------------

pub const CONFIG_PATH: &str = "/sim/roughenough.cfg";

pub fn config_text(s: &ServerSpec) -> String {
    if let Some(t) = &s.raw_text {
        return t.clone();
    }
    let mut lines: Vec<(String, String)> = Vec::new();
    lines.push(("interface".into(), s.interface.clone()));
    lines.push(("port".into(), s.port.to_string()));
    // YAML would read an all-digit seed as a number: quote it (any other seed is written bare,
    // as in the README)
    let numeric = !s.seed_hex.is_empty() && s.seed_hex.chars().all(|c| c.is_ascii_digit() || c == 'e' || c == 'E' || c == '.');
    lines.push(("seed".into(), match &s.seed_written {
        Some(w) => w.clone(),
        None if numeric => format!("\"{}\"", s.seed_hex),
        None => s.seed_hex.clone(),
    }));
    if s.batch_written {
        lines.push(("batch_size".into(), s.batch_size.to_string()));
    }
    if let Some(v) = s.status_interval {
        lines.push(("status_interval".into(), v.to_string()));
    }
    if let Some(v) = s.health_port {
        lines.push(("health_check_port".into(), v.to_string()));
    }
    if let Some(v) = &s.client_stats {
        lines.push(("client_stats".into(), v.clone()));
    }
    if let Some(v) = &s.persist_dir {
        lines.push(("persistence_directory".into(), v.clone()));
    }
    if s.fault_written {
        lines.push(("fault_percentage".into(), s.fault_pct.to_string()));
    }
    if s.workers_written {
        lines.push(("num_workers".into(), s.workers.to_string()));
    }
    lines.retain(|(k, _)| !s.omit.contains(k));
    for (k, v) in &s.extra {
        lines.push((k.clone(), v.clone()));
    }
    if s.layout == 0 {
        return lines.iter().map(|(k, v)| format!("{}: {}\n", k, v)).collect();
    }
    // another way of writing the same configuration
    let mut rng = Rng::derive(s.layout, "config-layout");
    if s.client_stats.is_none() && !lines.iter().any(|(k, _)| k == "persistence_directory") && !s.omit.iter().any(|k| k == "persistence_directory") && rng.chance(1, 2) {
        lines.push(("persistence_directory".into(), String::new()));
    }
    for i in (1..lines.len()).rev() {
        let j = rng.below(i as u64 + 1) as usize;
        lines.swap(i, j);
    }
    let mut out = String::new();
    if rng.chance(1, 3) {
        out.push_str("# roughenough configuration\n");
    }
    // one file in five carries a long comment (a licence header, operator's notes): a file of
    // more than 4, 8 or 64 KiB, placed before, between or after the keys
    let long_at = if rng.chance(1, 5) { Some(rng.below(lines.len() as u64 + 1) as usize) } else { None };
    let long_len = *rng.pick(&[4_200usize, 9_000, 70_000]);
    let long_comment = |out: &mut String| {
        let mut n = 0;
        while n < long_len {
            out.push_str("# ------------------------------------------------------------------------------\n");
            n += 81;
        }
    };
    for (i, (k, v)) in lines.iter().enumerate() {
        if long_at == Some(i) {
            long_comment(&mut out);
        }
        if rng.chance(1, 8) {
            out.push_str("\n");
        }
        if v.is_empty() {
            out.push_str(&format!("{}:\n", k));
        } else {
            out.push_str(&format!("{}: {}\n", k, v));
        }
    }
    if long_at == Some(lines.len()) {
        long_comment(&mut out);
    }
    out
}

pub fn config_env(s: &ServerSpec) -> BTreeMap<String, String> {
    let mut e = BTreeMap::new();
    e.insert("ROUGHENOUGH_INTERFACE".to_string(), s.interface.clone());
    e.insert("ROUGHENOUGH_PORT".to_string(), s.port.to_string());
    e.insert("ROUGHENOUGH_SEED".to_string(), s.seed_written.clone().unwrap_or_else(|| s.seed_hex.clone()));
    if s.batch_written {
        e.insert("ROUGHENOUGH_BATCH_SIZE".to_string(), s.batch_size.to_string());
    }
    if let Some(v) = s.status_interval {
        e.insert("ROUGHENOUGH_STATUS_INTERVAL".to_string(), v.to_string());
    }
    if let Some(v) = s.health_port {
        e.insert("ROUGHENOUGH_HEALTH_CHECK_PORT".to_string(), v.to_string());
    }
    if let Some(v) = &s.client_stats {
        e.insert("ROUGHENOUGH_CLIENT_STATS".to_string(), v.clone());
    }
    if let Some(v) = &s.persist_dir {
        e.insert("ROUGHENOUGH_PERSISTENCE_DIRECTORY".to_string(), v.clone());
    }
    if s.fault_written {
        e.insert("ROUGHENOUGH_FAULT_PERCENTAGE".to_string(), s.fault_pct.to_string());
    }
    if s.workers_written {
        e.insert("ROUGHENOUGH_NUM_WORKERS".to_string(), s.workers.to_string());
    }
    let omit_env: Vec<String> = s.omit.iter().map(|k| format!("ROUGHENOUGH_{}", k.to_uppercase())).collect();
    e.retain(|k, _| !omit_env.contains(k));
    for (k, v) in &s.extra {
        e.insert(k.clone(), v.clone());
    }
    e
}

fn snap_stats(st: &dyn roughenough::stats::ServerStats, per_client: bool) -> StatSnap {
    let mut entries: Vec<(IpAddr, [u64; 8])> = st
        .iter()
        .map(|(ip, c)| {
            (
                *ip,
                [c.rfc_requests as u64, c.classic_requests as u64, c.invalid_requests as u64, c.health_checks as u64, c.rfc_responses_sent as u64, c.classic_responses_sent as u64, c.bytes_sent as u64, c.failed_send_attempts as u64],
            )
        })
        .collect();
    entries.sort();
    StatSnap {
        per_client,
        valid: st.total_valid_requests(),
        classic: st.num_classic_requests(),
        rfc: st.num_rfc_requests(),
        invalid: st.total_invalid_requests(),
        health: st.total_health_checks(),
        responses: st.total_responses_sent(),
        classic_resp: st.num_classic_responses_sent(),
        rfc_resp: st.num_rfc_responses_sent(),
        bytes: st.total_bytes_sent() as u64,
        failed: st.total_failed_send_attempts(),
        unique: st.total_unique_clients(),
        overflows: st.verif_num_overflows(),
        overflows_before_resets: 0,
        overflows_on_empty: 0,
        entries,
    }
}

fn w_worker(spec: ServerSpec, queue: Arc<roughenough::stats::StatsQueue>, snap: bool) {
    use roughenough::config::MemoryConfig;
    let mut cfg = MemoryConfig::new(spec.port as u16);
    cfg.interface = spec.interface.clone();
    cfg.seed = hex_decode(&spec.seed_hex).expect("W mode needs a hex seed");
    cfg.batch_size = spec.batch_size as u8;
    if let Some(si) = spec.status_interval {
        cfg.status_interval = Duration::from_secs(si as u64);
    }
    cfg.health_check_port = spec.health_port.map(|p| p as u16);
    cfg.client_stats = spec.client_stats.is_some();
    cfg.fault_percentage = spec.fault_pct as u8;
    cfg.num_workers = spec.workers as usize;
    let addr: SocketAddr = format!("{}:{}", spec.interface, spec.port).parse().unwrap();
    let sock = {
        use net2::unix::UnixUdpBuilderExt;
        let raw = net2::UdpBuilder::new_v4().unwrap().reuse_address(true).unwrap().reuse_port(true).unwrap().bind(addr).expect("worker bind");
        mio::net::UdpSocket::from_socket(raw).unwrap()
    };
    let mut server = roughenough::server::Server::new(&cfg, sock, queue);
    let name = dsim::current_task_name().unwrap_or_default();
    let mut events = mio::Events::with_capacity(1024);
    let (mut prev_over, mut acc_over, mut over_on_empty) = (0u64, 0u64, 0u64);
    loop {
        server.process_events(&mut events);
        if snap {
            let mut s = snap_stats(server.verif_stats(), cfg.client_stats);
            if s.overflows < prev_over {
                acc_over += prev_over;
            }
            prev_over = s.overflows;
            s.overflows_before_resets = acc_over;
            if s.per_client && s.unique == 0 {
                over_on_empty = over_on_empty.max(s.overflows);
            }
            s.overflows_on_empty = over_on_empty;
            ctx(|c| {
                c.max_unique = c.max_unique.max(s.unique);
                c.snaps.insert(name.clone(), s)
            });
        }
    }
}

fn drain_main(queue: Arc<roughenough::stats::StatsQueue>) {
    loop {
        while let Some(snapshot) = queue.pop() {
            ctx(|c| {
                c.drained_snapshots += 1;
                for cs in &snapshot {
                    let e = c.drained.entry(cs.ip_addr).or_insert([0; 8]);
                    let add = [cs.rfc_requests as u64, cs.classic_requests as u64, cs.invalid_requests as u64, cs.health_checks as u64, cs.rfc_responses_sent as u64, cs.classic_responses_sent as u64, cs.bytes_sent as u64, cs.failed_send_attempts as u64];
                    for i in 0..8 {
                        e[i] += add[i];
                    }
                }
            });
        }
        dsim::sleep(Duration::from_millis(5));
    }
}

/// Address number `i` of the synthetic snapshots fed to a directly driven reporter.
pub fn direct_addr(i: u8) -> IpAddr {
    IpAddr::V4(Ipv4Addr::new(10, 9, 0, i))
}

/// The real `Reporter` with the harness in the role of the workers.
fn reporter_direct_main(interval_s: u64, pushes: Vec<(u64, Vec<(u8, [u64; 8])>)>, linger_ms: u64) {
    use roughenough::stats::{ClientStats, Reporter, StatsQueue};
    use std::sync::atomic::{AtomicBool, Ordering};
    dsim::logger::set_level(log::LevelFilter::Info);
    let queue = Arc::new(StatsQueue::new(pushes.len().max(1)));
    let keep = Arc::new(AtomicBool::new(true));
    let (q, k) = (queue.clone(), keep.clone());
    let feeder = verif_std::thread::Builder::new()
        .name("feeder".to_string())
        .spawn(move || {
            let mut now_us = 0u64;
            for (at_us, rows) in pushes {
                if at_us > now_us {
                    dsim::sleep(Duration::from_micros(at_us - now_us));
                    now_us = at_us;
                }
                let snapshot: Vec<ClientStats> = rows
                    .iter()
                    .map(|(a, v)| ClientStats {
                        rfc_requests: v[0] as u32,
                        classic_requests: v[1] as u32,
                        invalid_requests: v[2] as u32,
                        health_checks: v[3] as u32,
                        rfc_responses_sent: v[4] as u32,
                        classic_responses_sent: v[5] as u32,
                        bytes_sent: v[6] as usize,
                        failed_send_attempts: v[7] as u32,
                        retried_send_attempts: 0,
                        first_seen: 1_700_000_000,
                        ip_addr: direct_addr(*a),
                    })
                    .collect();
                if q.push(snapshot).is_err() {
                    ctx(|c| c.direct_refused += 1);
                }
            }
            dsim::sleep(Duration::from_millis(linger_ms));
            k.store(false, Ordering::SeqCst);
        })
        .unwrap();
    let mut reporter = Reporter::new(queue, &Duration::from_secs(interval_s), Some(std::path::PathBuf::from("/tmp")));
    reporter.processing_loop(&keep);
    let _ = feeder.join();
}

/// An embedding program's earlier server: created for another seed on another port, used for
/// nothing, dropped again before the servers under observation are created.
fn prior_identity(spec: &ServerSpec, tag: i64) {
    use roughenough::config::MemoryConfig;
    let mut cfg = MemoryConfig::new(spec.port as u16 + 1);
    cfg.interface = spec.interface.clone();
    let mut other = [0u8; 32];
    Rng::derive(tag as u64, "prior-identity").fill(&mut other);
    cfg.seed = other.to_vec();
    cfg.batch_size = 8;
    cfg.num_workers = 1;
    let addr: SocketAddr = format!("{}:{}", spec.interface, spec.port + 1).parse().unwrap();
    let sock = {
        use net2::unix::UnixUdpBuilderExt;
        let raw = net2::UdpBuilder::new_v4().unwrap().reuse_address(true).unwrap().reuse_port(true).unwrap().bind(addr).expect("prior bind");
        mio::net::UdpSocket::from_socket(raw).unwrap()
    };
    let queue = Arc::new(roughenough::stats::StatsQueue::new(2));
    let server = roughenough::server::Server::new(&cfg, sock, queue);
    drop(server);
}

fn w_main(spec: ServerSpec, snap: bool, prior: i64) {
    if prior != 0 {
        prior_identity(&spec, prior);
    }
    if let Some(l) = spec.log_level {
        dsim::logger::set_level(level_of(l));
    } else {
        dsim::logger::set_level(log::LevelFilter::Off);
    }
    let n = spec.workers.max(1) as usize;
    let queue = Arc::new(roughenough::stats::StatsQueue::new(n * 2));
    let mut hs = Vec::new();
    if snap {
        let q = queue.clone();
        let _ = verif_std::thread::Builder::new().name("stats-drain".to_string()).spawn(move || drain_main(q)).unwrap();
    }
    for i in 0..n {
        let (s, q) = (spec.clone(), queue.clone());
        let h = verif_std::thread::Builder::new().name(format!("worker-{}", i)).spawn(move || w_worker(s, q, snap)).unwrap();
        hs.push(h);
    }
    for h in hs {
        let _ = h.join();
    }
}

pub fn start_server(plan: &Plan) {
    let spec = match &plan.server {
        Some(s) => s.clone(),
        None => return,
    };
    let snap = plan.p("snap_stats") != 0;
    dsim::with(|w| {
        if let Some(l) = spec.log_level {
            w.knobs.insert("log_level".into(), l as i64);
        }
        if let Some(l) = spec.stats_limit {
            w.knobs.insert("max_clients".into(), l);
        }
    });
    let pid = match spec.mode {
        Mode::W => {
            let prior = plan.p("prior_identity");
            dsim::with(|w| w.spawn_proc("server", vec!["w-mode".into()], BTreeMap::new(), true, move || w_main(spec, snap, prior)))
        }
        Mode::F => {
            let (argv, env) = match spec.source {
                ConfigSource::Env => (vec!["roughenough-server".to_string(), "ENV".to_string()], config_env(&spec)),
                _ => {
                    let text = config_text(&spec);
                    dsim::with(|w| {
                        w.vfs.insert(CONFIG_PATH.to_string(), dsim::VFile { data: text.into_bytes() });
                    });
                    // `leftover_env`: the settings are still exported in the environment as well
                    // (a deployment that moved from ENV to a file and never cleaned up)
                    let env = if plan.p("leftover_env") != 0 { config_env(&spec) } else { BTreeMap::new() };
                    (vec!["roughenough-server".to_string(), CONFIG_PATH.to_string()], env)
                }
            };
            dsim::with(|w| {
                w.spawn_proc("roughenough-server", argv, env, true, || {
                    wrap_server::verif_reset();
                    wrap_server::verif_main();
                })
            })
        }
    };
    ctx(|c| c.server_procs.push(pid));
}

// ------------------------------------------------------------------------------------------
// reference server with forgery operators (C01 / C03)
// ------------------------------------------------------------------------------------------

fn seed32(n: u64, label: &str) -> [u8; 32] {
    let mut s = [0u8; 32];
    Rng::derive(n, label).fill(&mut s);
    s
}

struct Parts {
    proto: r::Proto,
    sig: Vec<u8>,
    nonce: Vec<u8>,
    path: Vec<u8>,
    index: Vec<u8>,
    midp: Vec<u8>,
    radi: Vec<u8>,
    root: Vec<u8>,
    ver: Vec<u8>,
    vers: Vec<u8>,
    cert_sig: Vec<u8>,
    pubk: Vec<u8>,
    mint: Vec<u8>,
    maxt: Vec<u8>,
    /// pre-encoded SREP / DELE override (when set the field-level parts above are ignored)
    srep_raw: Option<Vec<u8>>,
    /// the classic layout without a top-level NONC (what Google's servers send)
    omit_nonc: bool,
    /// unsigned extra top-level fields
    extra_top: Vec<(u32, Vec<u8>)>,
}

impl Parts {
    fn srep_bytes(&self) -> Vec<u8> {
        if let Some(s) = &self.srep_raw {
            return s.clone();
        }
        let mut s = r::Msg::new();
        s.put(r::RADI, &self.radi);
        s.put(r::MIDP, &self.midp);
        s.put(r::ROOT, &self.root);
        if self.proto == r::Proto::Ietf {
            s.put(r::VER, &self.ver);
            s.put(r::VERS, &self.vers);
        }
        s.encode()
    }
    fn dele_bytes(&self) -> Vec<u8> {
        let mut d = r::Msg::new();
        d.put(r::PUBK, &self.pubk);
        d.put(r::MINT, &self.mint);
        d.put(r::MAXT, &self.maxt);
        d.encode()
    }
    fn assemble(&self) -> Vec<u8> {
        let mut cert = r::Msg::new();
        cert.put(r::SIG, &self.cert_sig);
        cert.put(r::DELE, &self.dele_bytes());
        let mut m = r::Msg::new();
        m.put(r::SIG, &self.sig);
        if !self.omit_nonc {
            m.put(r::NONC, &self.nonce);
        }
        m.put(r::PATH, &self.path);
        m.put(r::SREP, &self.srep_bytes());
        m.put(r::CERT, &cert.encode());
        m.put(r::INDX, &self.index);
        for (t, v) in &self.extra_top {
            if !m.has(*t) {
                m.put(*t, v);
            }
        }
        match self.proto {
            r::Proto::Classic => m.encode(),
            r::Proto::Ietf => m.encode_framed(),
        }
    }
    fn sign_srep(&mut self, online_seed: &[u8; 32]) {
        let mut msg = self.proto.srep_context().to_vec();
        msg.extend_from_slice(&self.srep_bytes());
        self.sig = r::sign(online_seed, &msg);
    }
    fn sign_dele(&mut self, long_seed: &[u8; 32], ctx_proto: r::Proto) {
        let mut msg = ctx_proto.dele_context().to_vec();
        msg.extend_from_slice(&self.dele_bytes());
        self.cert_sig = r::sign(long_seed, &msg);
    }
    fn region(&mut self, name: &str) -> Option<&mut Vec<u8>> {
        Some(match name {
            "SIG" => &mut self.sig,
            "NONC" => &mut self.nonce,
            "PATH" => &mut self.path,
            "INDX" => &mut self.index,
            "SREP.MIDP" => &mut self.midp,
            "SREP.RADI" => &mut self.radi,
            "SREP.ROOT" => &mut self.root,
            "SREP.VER" => &mut self.ver,
            "SREP.VERS" => &mut self.vers,
            "CERT.SIG" => &mut self.cert_sig,
            "DELE.PUBK" => &mut self.pubk,
            "DELE.MINT" => &mut self.mint,
            "DELE.MAXT" => &mut self.maxt,
            _ => return None,
        })
    }
}

pub const REGIONS: [&str; 12] = ["SIG", "PATH", "INDX", "SREP.MIDP", "SREP.RADI", "SREP.ROOT", "SREP.VER", "CERT.SIG", "DELE.PUBK", "DELE.MINT", "DELE.MAXT", "NONC"];

fn midp_value(proto: r::Proto, slot: &SlotSpec) -> u64 {
    match proto {
        r::Proto::Classic => slot.midp_secs * 1_000_000 + slot.midp_sub_us as u64,
        r::Proto::Ietf => slot.midp_secs,
    }
}

fn honest_parts(proto: r::Proto, long_seed: &[u8; 32], online_seed: &[u8; 32], request: &[u8], nonce: &[u8], slot: &SlotSpec) -> Parts {
    let w = proto.hash_len();
    let mut srng = Rng::derive(slot.sibling_seed, "siblings");
    let mut path = Vec::new();
    for _ in 0..slot.depth {
        let mut s = vec![0u8; w];
        srng.fill(&mut s);
        path.extend_from_slice(&s);
    }
    let index = if slot.depth == 0 { 0 } else { slot.index % (1u32 << slot.depth.min(31)) };
    let leaf: &[u8] = if proto == r::Proto::Classic { nonce } else { request };
    let root = r::root_from_path(proto, leaf, index as u64, &path).unwrap();
    let mut p = Parts {
        proto,
        sig: vec![],
        nonce: nonce.to_vec(),
        path,
        index: index.to_le_bytes().to_vec(),
        midp: midp_value(proto, slot).to_le_bytes().to_vec(),
        radi: proto.radius_5s().to_le_bytes().to_vec(),
        root,
        ver: r::VER_DRAFT13.to_le_bytes().to_vec(),
        vers: r::VER_DRAFT13.to_le_bytes().to_vec(),
        cert_sig: vec![],
        pubk: r::pubkey_from_seed(online_seed),
        mint: 0u64.to_le_bytes().to_vec(),
        maxt: u64::MAX.to_le_bytes().to_vec(),
        srep_raw: None,
        omit_nonc: slot.no_nonc && proto == r::Proto::Classic,
        extra_top: Vec::new(),
    };
    let m = midp_value(proto, slot);
    let (mint, maxt) = match slot.window {
        1 => (m, u64::MAX),
        2 => (0, m),
        3 => (m, m),
        4 => (m.saturating_sub(1), m.saturating_add(1)),
        _ => (0, u64::MAX),
    };
    p.mint = mint.to_le_bytes().to_vec();
    p.maxt = maxt.to_le_bytes().to_vec();
    p.sign_dele(long_seed, proto);
    p.sign_srep(online_seed);
    p
}

fn other(proto: r::Proto) -> r::Proto {
    if proto == r::Proto::Classic {
        r::Proto::Ietf
    } else {
        r::Proto::Classic
    }
}

/// Build what the (possibly byzantine) reference server sends for request number `ordinal`.
fn ref_respond(spec: &RefServerSpec, ordinal: usize, request: &[u8], src: SocketAddr) -> RefExchange {
    let long_seed = seed32(spec.long_seed, "ref-long");
    let online_seed = seed32(spec.online_seed, "ref-online");
    let slot = spec.slots.get(ordinal).cloned().unwrap_or(SlotSpec { index: 0, depth: 0, midp_secs: 1_700_000_000, midp_sub_us: 0, forgeries: vec![], sibling_seed: 0, delay_us: 0, window: 0, no_nonc: false });
    let srv = r::srv_value(&r::pubkey_from_seed(&long_seed));
    let (proto, nonce) = match r::classify_request(request, &srv) {
        Ok(i) => (i.proto, i.nonce),
        Err(_) => {
            return RefExchange { ordinal, proto: None, request: request.to_vec(), nonce: vec![], src, honest: vec![], sent: vec![], midp: 0 };
        }
    };
    let honest = honest_parts(proto, &long_seed, &online_seed, request, &nonce, &slot).assemble();
    let mut parts = honest_parts(proto, &long_seed, &online_seed, request, &nonce, &slot);
    let mut out: Option<Vec<Vec<u8>>> = None;
    let mut post: Vec<Forgery> = Vec::new();
    for f in &slot.forgeries {
        match f {
            Forgery::FlipBit { region, bit } => {
                if let Some(v) = parts.region(region) {
                    if !v.is_empty() {
                        let b = *bit as usize % (v.len() * 8);
                        v[b / 8] ^= 1 << (b % 8);
                    }
                }
            }
            Forgery::Rewrite { region, seed } => {
                if let Some(v) = parts.region(region) {
                    Rng::derive(*seed, "rewrite").fill(v);
                }
            }
            Forgery::OtherLongTermKey(n) => {
                let other_long = seed32(*n, "forger-long");
                parts.sign_dele(&other_long, proto);
            }
            Forgery::OtherOnlineKey(n) => {
                let other_online = seed32(*n, "forger-online");
                parts.sign_srep(&other_online);
            }
            Forgery::CrossProtocol => {
                // an honest answer in the other protocol's shape for the same nonce
                let op = other(proto);
                let mut p2 = honest_parts(op, &long_seed, &online_seed, request, &nonce, &slot);
                p2.nonce = nonce.clone();
                // keep the framing the client expects so that the content is what gets judged
                p2.proto = op;
                let mut bytes = p2.assemble();
                if proto == r::Proto::Ietf && op == r::Proto::Classic {
                    bytes = r::frame(&bytes);
                } else if proto == r::Proto::Classic && op == r::Proto::Ietf {
                    bytes = bytes[12..].to_vec();
                }
                out = Some(vec![bytes]);
            }
            Forgery::WrongDeleContext => {
                parts.sign_dele(&long_seed, other(proto));
            }
            Forgery::SpliceFrom(k) => {
                let prev = ctx(|c| c.ref_exchanges.iter().filter(|e| e.proto == Some(proto) && !e.honest.is_empty()).nth(*k as usize % c.ref_exchanges.len().max(1)).cloned());
                if let Some(prev) = prev {
                    let payload = if proto == r::Proto::Ietf { &prev.honest[12..] } else { &prev.honest[..] };
                    if let Ok((m, _)) = r::decode(payload) {
                        if let (Some(p), Some(i), Some(s), Some(sig)) = (m.get(r::PATH), m.get(r::INDX), m.get(r::SREP), m.get(r::SIG)) {
                            parts.path = p.to_vec();
                            parts.index = i.to_vec();
                            parts.srep_raw = Some(s.to_vec());
                            parts.sig = sig.to_vec();
                        }
                    }
                }
            }
            Forgery::ReplayEarlier(k) | Forgery::ReplayPreviousRun(k) => {
                let prev = ctx(|c| {
                    let v: Vec<&RefExchange> = c.ref_exchanges.iter().filter(|e| e.proto == Some(proto) && !e.honest.is_empty()).collect();
                    if v.is_empty() {
                        None
                    } else {
                        Some(v[*k as usize % v.len()].honest.clone())
                    }
                });
                if let Some(p) = prev {
                    out = Some(vec![p]);
                }
            }
            Forgery::MidpointOutsideWindow { before } => {
                let m = midp_value(proto, &slot);
                let (mint, maxt) = if *before { (m.saturating_add(1), m.saturating_add(1_000_000)) } else { (m.saturating_sub(1_000_000).min(m.saturating_sub(1)), m.saturating_sub(1)) };
                if !(mint <= m && m <= maxt) {
                    parts.mint = mint.to_le_bytes().to_vec();
                    parts.maxt = maxt.to_le_bytes().to_vec();
                    parts.sign_dele(&long_seed, proto);
                }
            }
            Forgery::WrongLeaf => {
                // honest proof for a different request (one nonce bit differs)
                let mut n2 = nonce.clone();
                n2[0] ^= 1;
                let mut req2 = request.to_vec();
                if let Some(pos) = request.windows(nonce.len()).position(|w| w == &nonce[..]) {
                    req2[pos] ^= 1;
                }
                let mut p2 = honest_parts(proto, &long_seed, &online_seed, &req2, &n2, &slot);
                p2.nonce = nonce.clone();
                parts = p2;
            }
            Forgery::LooseRoot => {
                let mut n2 = nonce.clone();
                n2[0] ^= 1;
                let mut req2 = request.to_vec();
                if let Some(pos) = request.windows(nonce.len()).position(|w| w == &nonce[..]) {
                    req2[pos] ^= 1;
                }
                let mut p2 = honest_parts(proto, &long_seed, &online_seed, &req2, &n2, &slot);
                p2.nonce = nonce.clone();
                p2.path = Vec::new();
                p2.index = 0u32.to_le_bytes().to_vec();
                let leaf: &[u8] = if proto == r::Proto::Classic { &nonce } else { request };
                p2.extra_top.push((r::ROOT, r::leaf_hash(proto, leaf)));
                parts = p2;
            }
            Forgery::RaggedPath(n) => {
                let mut n2 = nonce.clone();
                n2[0] ^= 1;
                let mut req2 = request.to_vec();
                if let Some(pos) = request.windows(nonce.len()).position(|w| w == &nonce[..]) {
                    req2[pos] ^= 1;
                }
                let mut p2 = honest_parts(proto, &long_seed, &online_seed, &req2, &n2, &slot);
                p2.nonce = nonce.clone();
                let want = *n as usize / 4 * 4;
                p2.path.resize(want, 0x5a);
                parts = p2;
            }
            Forgery::ShadowTag { tag, seed } => {
                let mut v = vec![0u8; if tag == "PUBK" || tag == "ROOT" { 32 } else if tag == "RADI" { 4 } else { 8 }];
                Rng::derive(*seed, "shadow").fill(&mut v);
                let t = match tag.as_str() {
                    "MIDP" => r::MIDP,
                    "RADI" => r::RADI,
                    "PUBK" => r::PUBK,
                    "MINT" => r::MINT,
                    "MAXT" => r::MAXT,
                    _ => r::ROOT,
                };
                parts.extra_top.push((t, v));
            }
            Forgery::WrongIndex(k) => {
                if slot.depth > 0 {
                    let cur = u32::from_le_bytes(parts.index.clone().try_into().unwrap());
                    let range = 1u32 << slot.depth.min(31);
                    let mut v = *k % range;
                    if v == cur {
                        v = (v + 1) % range;
                    }
                    parts.index = v.to_le_bytes().to_vec();
                }
            }
            Forgery::PathExtra => {
                let w = proto.hash_len();
                parts.path.extend(std::iter::repeat(0x5a).take(w));
            }
            Forgery::PathShort => {
                let w = proto.hash_len();
                let n = parts.path.len();
                if n >= w {
                    parts.path.truncate(n - w);
                }
            }
            Forgery::ResignedShortRoot(len) => {
                let n = (*len as usize / 4 * 4).min(parts.root.len());
                parts.root.truncate(n);
                parts.sign_srep(&online_seed);
            }
            Forgery::ResignedWrongRoot(seed) => {
                Rng::derive(*seed, "wrong-root").fill(&mut parts.root);
                parts.sign_srep(&online_seed);
            }
            Forgery::ResignedRootPrefixKept(keep) => {
                let n = parts.root.len();
                let keep = (*keep as usize).min(n.saturating_sub(1));
                for b in parts.root[keep..].iter_mut() {
                    *b = !*b;
                }
                parts.sign_srep(&online_seed);
            }
            Forgery::ResignedFillRoot(byte) => {
                parts.root.fill(*byte);
                parts.sign_srep(&online_seed);
            }
            Forgery::Fill { region, byte } => {
                if let Some(v) = parts.region(region) {
                    v.fill(*byte);
                }
            }
            Forgery::Drop => out = Some(vec![]),
            other => post.push(other.clone()),
        }
    }
    let mut sent = out.unwrap_or_else(|| vec![parts.assemble()]);
    for f in post {
        match f {
            Forgery::Truncate(n) => {
                for s in sent.iter_mut() {
                    let n = (n as usize).min(s.len());
                    s.truncate(n);
                }
            }
            Forgery::Mutate { count, seed } => {
                let mut rng = Rng::derive(seed, "mutate");
                for s in sent.iter_mut() {
                    for _ in 0..count {
                        if !s.is_empty() {
                            let i = rng.below(s.len() as u64) as usize;
                            s[i] ^= 1 << rng.below(8);
                        }
                    }
                }
            }
            Forgery::Duplicate => {
                if let Some(f) = sent.first().cloned() {
                    sent.push(f);
                }
            }
            _ => {}
        }
    }
    RefExchange { ordinal, proto: Some(proto), request: request.to_vec(), nonce, src, honest, sent, midp: midp_value(proto, &slot) }
}

fn ref_server_main(spec: RefServerSpec) {
    let sock = verif_std::net::UdpSocket::bind(("127.0.0.1", spec.port)).expect("ref server bind");
    let mut buf = vec![0u8; 65536];
    let mut ordinal = 0usize;
    loop {
        sock.set_read_timeout(Some(Duration::from_secs(3600))).unwrap();
        let (n, src) = match sock.recv_from(&mut buf) {
            Ok(x) => x,
            Err(_) => return,
        };
        let ex = ref_respond(&spec, ordinal, &buf[..n], src);
        let delay = spec.slots.get(ordinal).map(|s| s.delay_us).unwrap_or(0);
        ordinal += 1;
        if delay > 0 {
            dsim::sleep(Duration::from_micros(delay));
        }
        for d in &ex.sent {
            let _ = sock.send_to(d, src);
        }
        ctx(|c| c.ref_exchanges.push(ex));
    }
}

// ------------------------------------------------------------------------------------------
// closed-loop clients and floods
// ------------------------------------------------------------------------------------------

fn closed_loop_main(sock_no: u32, protos: Vec<P>, count: u32, think_us: u64, timeout_ms: u64, seed: u64, target: SocketAddr, srv: Vec<u8>, pool: u32) {
    let addr = client_addr(sock_no, pool);
    let sock = verif_std::net::UdpSocket::bind(addr).expect("closed-loop bind");
    let sid = sock.sim_id();
    dsim::with(|w| w.socks[sid].cap = 1 << 16);
    ctx(|c| c.socks.insert(sock_no, sid));
    let idx = ctx(|c| {
        c.closed_loop.push(ClosedLoopRec { sock: sock_no, sent: vec![], got: vec![], timeouts: 0, strays: 0, timed_out_requests: vec![] });
        c.closed_loop.len() - 1
    });
    let mut buf = vec![0u8; 8192];
    for i in 0..count {
        let proto = protos[i as usize % protos.len()];
        let spec = reqs::valid_variant(proto, seed.wrapping_mul(1_000_003).wrapping_add(i as u64));
        let bytes = reqs::build(&spec, &srv);
        let t = dsim::now();
        let _ = sock.send_to(&bytes, target);
        ctx(|c| c.closed_loop[idx].sent.push((bytes.clone(), t)));
        // wait for the answer to *this* request; anything else (a duplicate or late answer to an
        // earlier one) is a stray, as it would be for any real client that matches on the nonce
        let want = r::classify_request(&bytes, &srv).map(|i| i.nonce).unwrap_or_default();
        let deadline = dsim::now() + timeout_ms * dsim::MS;
        loop {
            let left = deadline.saturating_sub(dsim::now());
            if left == 0 {
                ctx(|c| c.closed_loop[idx].timeouts += 1);
                ctx(|c| c.closed_loop[idx].timed_out_requests.push(i as usize));
                break;
            }
            sock.set_read_timeout(Some(Duration::from_nanos(left))).unwrap();
            match sock.recv_from(&mut buf) {
                Ok((n, _)) => {
                    let t = dsim::now();
                    let payload = if n >= 12 && &buf[..8] == r::MAGIC { &buf[12..n] } else { &buf[..n] };
                    let echo = r::decode(payload).ok().and_then(|(m, _)| m.get(r::NONC).map(|x| x.to_vec()));
                    if echo.as_deref() == Some(&want[..]) || echo.is_none() {
                        ctx(|c| c.closed_loop[idx].got.push((buf[..n].to_vec(), t)));
                        break;
                    }
                    ctx(|c| c.closed_loop[idx].strays += 1);
                }
                Err(_) => {
                    ctx(|c| c.closed_loop[idx].timeouts += 1);
                    ctx(|c| c.closed_loop[idx].timed_out_requests.push(i as usize));
                    break;
                }
            }
        }
        if think_us > 0 {
            dsim::sleep(Duration::from_micros(think_us));
        }
    }
    // linger so that late duplicates are still recorded as deliveries to an open socket
    dsim::sleep(Duration::from_secs(3600));
}

fn flood_tick(sock: dsim::SockId, bytes: std::rc::Rc<Vec<Vec<u8>>>, target: SocketAddr, interval_ns: u64, left: u32) {
    if left == 0 {
        return;
    }
    dsim::with(|w| {
        let _ = w.udp_send(sock, &bytes[left as usize % bytes.len()], target);
        let at = w.now + interval_ns;
        let b = bytes.clone();
        w.at(at, move || flood_tick(sock, b, target, interval_ns, left - 1));
    });
}

#[derive(Clone)]
struct StreamState {
    first_sock: u32,
    socks: u32,
    ietf_permille: u32,
    interval_ns: u64,
    nonce_base: u64,
    target: SocketAddr,
    srv: std::rc::Rc<Vec<u8>>,
    burst_max: u32,
}

fn stream_tick(st: StreamState, k: u32, count: u32) {
    if k >= count {
        return;
    }
    let group = (1 + dsim::rng::Rng::derive(st.nonce_base.wrapping_add(k as u64), "stream-group").below(st.burst_max as u64) as u32).min(count - k);
    for j in k..k + group {
        let nonce_seed = st.nonce_base.wrapping_add(j as u64);
        let mut rng = dsim::rng::Rng::derive(nonce_seed, "stream");
        let proto = if rng.below(1000) < st.ietf_permille as u64 { P::Ietf } else { P::Classic };
        let bytes = reqs::build(&reqs::valid_variant(proto, nonce_seed), &st.srv);
        let sock = ensure_client_sock(st.first_sock + j % st.socks);
        dsim::with(|w| {
            let _ = w.udp_send(sock, &bytes, st.target);
        });
    }
    dsim::with(|w| {
        let at = w.now + st.interval_ns * group as u64;
        w.at(at, move || stream_tick(st, k + group, count));
    });
}

// ------------------------------------------------------------------------------------------
// run
// ------------------------------------------------------------------------------------------

pub fn run(plan: &Plan, tape: dsim::Tape) -> RunOut {
    dsim::logger::install();
    // the machine's time zone: chrono's `Local` reads the real variable (each execution has its
    // own process, so nothing is carried over)
    std::env::set_var("TZ", plan.world.tz.as_deref().unwrap_or("UTC"));
    log::set_max_level(log::LevelFilter::Off);
    CTX.with(|c| *c.borrow_mut() = Ctx::default());
    let world = dsim::World::new(plan.world.to_cfg(), tape);
    dsim::install(world);

    // identity of the server under test, computed by the reference implementation
    if let Some(s) = &plan.server {
        if let Some(seed) = hex_decode(&s.seed_hex) {
            if seed.len() == 32 {
                let pk = r::pubkey_from_seed(&seed);
                ctx(|c| {
                    c.srv = r::srv_value(&pk);
                    c.long_pk = pk;
                    c.seed = seed;
                });
            }
        }
        // an unparsable address (C16 / C20 failing start-ups) leaves traffic aimed at the default
        let addr: Option<SocketAddr> = format!("{}:{}", s.interface, s.port).parse().ok().or_else(|| "127.0.0.1:2002".parse().ok());
        ctx(|c| c.server_addr = addr);
    }
    ctx(|c| c.ip_pool = plan.p("ip_pool") as u32);

    let has_start = plan.steps.iter().any(|s| matches!(s.act, Action::StartServer));
    if plan.server.is_some() && !has_start {
        start_server(plan);
    }

    for (i, st) in plan.steps.iter().enumerate() {
        let at = st.at_us * dsim::US;
        let plan2 = plan.clone();
        match st.act.clone() {
            Action::StartServer => dsim::with(|w| w.at(at, move || start_server(&plan2))),
            Action::Send { sock, req } => {
                let srv = ctx(|c| c.srv.clone());
                let bytes = reqs::build(&req, &srv);
                dsim::with(|w| {
                    w.at(at, move || {
                        let s = ensure_client_sock(sock);
                        let target = ctx(|c| c.server_addr).expect("server address");
                        let (dgram, now) = dsim::with(|w| {
                            let d = w.next_dgram;
                            let _ = w.udp_send(s, &bytes, target);
                            (d, w.now)
                        });
                        ctx(|c| c.sent.push(SentReq { step: i, sock, sim_sock: s, dgram, bytes, at: now }));
                    })
                });
            }
            Action::Health { id, reset } => dsim::with(|w| {
                w.at(at, move || {
                    let (iface, port) = match &plan2.server {
                        Some(s) => (s.interface.clone(), s.health_port.unwrap_or(0)),
                        None => return,
                    };
                    let dst: SocketAddr = match format!("{}:{}", iface, port).parse() {
                        Ok(a) => a,
                        Err(_) => return,
                    };
                    let src = SocketAddr::new(IpAddr::V4(Ipv4Addr::new(10, 9, 0, (id % 250 + 1) as u8)), 30000 + (id % 30000) as u16);
                    let c = dsim::with(|w| w.tcp_connect_opts(src, dst, reset));
                    ctx(|x| x.health_conns.push((id, c)));
                })
            }),
            Action::Signal { sig } => dsim::with(|w| {
                w.at(at, move || {
                    let p = ctx(|c| c.server_procs.last().copied());
                    if let Some(p) = p {
                        let h = dsim::with(|w| w.signal(p, sig));
                        if let Some(h) = h {
                            // the handler runs on a thread of its own, as with the real crate: it
                            // may sleep, block or end the process
                            dsim::with(|w| {
                                w.new_task(p, "ctrl-c", false, Box::new(move || h()));
                            });
                        }
                    }
                })
            }),
            Action::SignalAtStep { step, sig } => dsim::with(|w| {
                w.at_step(step, move || {
                    let p = ctx(|c| c.server_procs.last().copied());
                    if let Some(p) = p {
                        let h = dsim::with(|w| w.signal(p, sig));
                        if let Some(h) = h {
                            // the handler runs on a thread of its own, as with the real crate: it
                            // may sleep, block or end the process
                            dsim::with(|w| {
                                w.new_task(p, "ctrl-c", false, Box::new(move || h()));
                            });
                        }
                    }
                })
            }),
            Action::CrashAtStep { step } => dsim::with(|w| {
                w.at_step(step, move || {
                    let p = ctx(|c| c.server_procs.last().copied());
                    if let Some(p) = p {
                        dsim::with(|w| w.terminate_proc(p, 137, "crash"));
                    }
                })
            }),
            Action::ForeignTcpListen { port } => dsim::with(|w| {
                w.at(at, move || {
                    dsim::with(|w| {
                        let p = w.new_proc("another-program", vec![], BTreeMap::new(), false);
                        let _ = w.tcp_listen_opts(p, SocketAddr::new(IpAddr::V4(Ipv4Addr::LOCALHOST), port), false);
                    })
                })
            }),
            Action::ForeignUdpBind { port } => dsim::with(|w| {
                w.at(at, move || {
                    dsim::with(|w| {
                        let p = w.new_proc("another-program", vec![], BTreeMap::new(), false);
                        let s = w.udp_socket(p);
                        let _ = w.udp_bind(s, SocketAddr::new(IpAddr::V4(Ipv4Addr::LOCALHOST), port));
                    })
                })
            }),
            Action::SetFault { kind, permille } => dsim::with(|w| {
                w.at(at, move || {
                    dsim::with(|w| {
                        match kind.as_str() {
                            "recv_err" => w.cfg.faults.recv_err = permille,
                            "send_err" => w.cfg.faults.send_err = permille,
                            "file_create_err" => w.cfg.faults.file_create_err = permille,
                            "file_write_err" => w.cfg.faults.file_write_err = permille,
                            "tcp_write_err" => w.cfg.faults.tcp_write_err = permille,
                            "accept_err" => w.cfg.faults.accept_err = permille,
                            _ => {}
                        }
                        w.note(format!("fault rate {} = {} permille", kind, permille));
                    })
                })
            }),
            Action::FdExhaustion { on } => dsim::with(|w| {
                w.at(at, move || {
                    let p = ctx(|c| c.server_procs.last().copied());
                    if let Some(p) = p {
                        dsim::with(|w| {
                            w.procs[p].fd_exhausted = on;
                            w.note(format!("fd exhaustion {}", if on { "begins" } else { "ends" }));
                        });
                    }
                })
            }),
            Action::WallStepMs(ms) => dsim::with(|w| w.at(at, move || dsim::with(|w| w.wall_step(ms as i128 * dsim::MS as i128)))),
            Action::WallSet { secs, nanos } => dsim::with(|w| w.at(at, move || dsim::with(|w| w.wall_set(secs as i128 * dsim::SEC as i128 + nanos as i128)))),
            Action::WallFreeze { secs, nanos } => dsim::with(|w| w.at(at, move || dsim::with(|w| w.wall_freeze(Some(secs as i128 * dsim::SEC as i128 + nanos as i128))))),
            Action::WallUnfreeze => dsim::with(|w| w.at(at, move || dsim::with(|w| w.wall_freeze(None)))),
            Action::Crash => dsim::with(|w| {
                w.at(at, move || {
                    let p = ctx(|c| c.server_procs.last().copied());
                    if let Some(p) = p {
                        dsim::with(|w| w.terminate_proc(p, 137, "crash"));
                    }
                })
            }),
            Action::Restart => dsim::with(|w| {
                w.at(at, move || {
                    // a restart replaces the previous incarnation if it is still there
                    let p = ctx(|c| c.server_procs.last().copied());
                    if let Some(p) = p {
                        dsim::with(|w| w.terminate_proc(p, 137, "crash"));
                    }
                    start_server(&plan2);
                })
            }),
            Action::RunClient { argv } => dsim::with(|w| {
                w.at(at, move || {
                    let mut full = vec!["roughenough-client".to_string()];
                    full.extend(argv.iter().cloned());
                    let p = dsim::with(|w| w.spawn_proc("roughenough-client", full, BTreeMap::new(), false, || wrap_client::verif_main()));
                    ctx(|c| c.client_procs.push(p));
                })
            }),
            Action::ClosedLoop { sock, protos, count, think_us, timeout_ms } => {
                let seed = plan.seed ^ ((sock as u64) << 20);
                dsim::with(|w| {
                    w.at(at, move || {
                        let target = ctx(|c| c.server_addr).expect("server address");
                        let (srv, pool) = ctx(|c| (c.srv.clone(), c.ip_pool));
                        dsim::with(|w| {
                            let p = match ctx(|c| c.client_proc) {
                                Some(p) => p,
                                None => {
                                    let p = w.new_proc("clients", vec![], BTreeMap::new(), false);
                                    ctx(|c| c.client_proc = Some(p));
                                    p
                                }
                            };
                            w.new_task(p, &format!("client-{}", sock), false, Box::new(move || closed_loop_main(sock, protos, count, think_us, timeout_ms, seed, target, srv, pool)));
                        });
                    })
                });
            }
            Action::Flood { sock, proto, interval_ns, count, payload } => {
                let srv = ctx(|c| c.srv.clone());
                let valid = ReqSpec::Valid { proto, size: 1024, nonce_seed: plan.seed ^ 0xf100d, srv: SrvMode::Absent, vers: vec![r::VER_DRAFT13] };
                let wrong_srv = ReqSpec::RawVer { size: 1024, nonce_seed: plan.seed ^ 0xf100e, ver: Some(r::VER_DRAFT13.to_le_bytes().to_vec()), srv: SrvMode::Other(plan.seed ^ 0x51) };
                let specs: Vec<ReqSpec> = match payload.as_deref().unwrap_or("valid") {
                    "wrong_srv" => vec![wrong_srv],
                    "garbage" => vec![ReqSpec::Garbage { len: 1100, seed: plan.seed ^ 0x6a }],
                    "empty" => vec![ReqSpec::Garbage { len: 0, seed: 0 }],
                    "short" => vec![ReqSpec::Mutant { base: Box::new(valid), muts: vec![Mutation::Truncate(1000)] }],
                    "mixed" => vec![valid, wrong_srv],
                    // requests of both protocols with datagrams shorter than any header between them
                    "runts" => {
                        let ietf = ReqSpec::Valid { proto: P::Ietf, size: 1024, nonce_seed: plan.seed ^ 0xf100f, srv: SrvMode::Absent, vers: vec![r::VER_DRAFT13] };
                        let classic = ReqSpec::Valid { proto: P::Classic, size: 1024, nonce_seed: plan.seed ^ 0xf1010, srv: SrvMode::Absent, vers: vec![] };
                        vec![
                            ietf.clone(),
                            ReqSpec::Garbage { len: 3, seed: plan.seed ^ 0x6b },
                            classic,
                            ReqSpec::Garbage { len: 0, seed: 0 },
                            ietf.clone(),
                            ReqSpec::Mutant { base: Box::new(ietf), muts: vec![Mutation::Truncate(9)] },
                        ]
                    }
                    _ => vec![valid],
                };
                let bytes = std::rc::Rc::new(specs.iter().map(|s| reqs::build(s, &srv)).collect::<Vec<_>>());
                dsim::with(|w| {
                    w.at(at, move || {
                        let s = ensure_client_sock(sock);
                        let target = ctx(|c| c.server_addr).expect("server address");
                        flood_tick(s, bytes, target, interval_ns, count);
                    })
                });
            }
            Action::Stream { first_sock, socks, ietf_permille, interval_ns, count, nonce_base, burst_max } => {
                dsim::with(|w| {
                    w.at(at, move || {
                        let target = ctx(|c| c.server_addr).expect("server address");
                        let srv = std::rc::Rc::new(ctx(|c| c.srv.clone()));
                        stream_tick(StreamState { first_sock, socks: socks.max(1), ietf_permille, interval_ns, nonce_base, target, srv, burst_max: burst_max.max(1) }, 0, count);
                    })
                });
            }
            Action::ReporterDirect { interval_s, pushes, linger_ms } => {
                dsim::with(|w| {
                    w.at(at, move || {
                        dsim::with(|w| {
                            w.spawn_proc("reporter-direct", vec![], BTreeMap::new(), true, move || reporter_direct_main(interval_s, pushes, linger_ms));
                        })
                    })
                });
            }
            Action::StartRefServer(spec) => {
                let long_seed = seed32(spec.long_seed, "ref-long");
                ctx(|c| c.ref_long_pk = r::pubkey_from_seed(&long_seed));
                dsim::with(|w| {
                    w.at(at, move || {
                        dsim::with(|w| {
                            w.spawn_proc("ref-server", vec![], BTreeMap::new(), false, move || ref_server_main(spec));
                        })
                    })
                });
            }
        }
    }

    let outcome = dsim::run();
    let world = dsim::take();
    let ctx = CTX.with(|c| std::mem::take(&mut *c.borrow_mut()));
    RunOut { world, outcome, ctx }
}
