//! Server-boundary view of a recorded history: what each SUT socket received and sent, grouped
//! into batches, and every send matched to the received datagram that elicited it.

use crate::exec::RunOut;
use dsim::{Ev, Ns, ProcId, SockId, TaskId};
use refimpl as r;
use std::collections::{BTreeMap, BTreeSet};
use std::net::SocketAddr;

#[derive(Clone, Debug)]
pub struct RecvRec {
    pub seq: u64,
    pub t: Ns,
    pub task: TaskId,
    pub proc: ProcId,
    pub sock: SockId,
    pub src: SocketAddr,
    pub dgram: u64,
    pub data: dsim::Bytes,
    pub class: Result<r::ReqInfo, &'static str>,
    /// index into `sends` of the responses matched to this datagram
    pub answers: Vec<usize>,
}

#[derive(Clone, Debug)]
pub struct SendRec {
    pub seq: u64,
    pub t: Ns,
    pub task: TaskId,
    pub proc: ProcId,
    pub sock: SockId,
    pub dst: SocketAddr,
    pub dgram: u64,
    pub data: dsim::Bytes,
    pub ok: bool,
    pub err: &'static str,
    /// index into `recvs` of the datagram this send answers
    pub request: Option<usize>,
    /// how the match was made: "verified", "nonce", "addr"
    pub how: &'static str,
    pub batch: usize,
    /// did the reference verifier accept it for the matched request
    pub verdict: Option<Result<r::Verified, r::Reject>>,
}

#[derive(Clone, Debug)]
pub struct Batch {
    pub task: TaskId,
    pub clock_seq: u64,
    pub clock_wall: i128,
    pub sends: Vec<usize>,
}

pub struct View {
    pub recvs: Vec<RecvRec>,
    pub sends: Vec<SendRec>,
    pub batches: Vec<Batch>,
    /// clock readings per task: (seq, wall ns)
    pub clocks: BTreeMap<TaskId, Vec<(u64, i128)>>,
    pub sut_procs: BTreeSet<ProcId>,
}

fn response_nonce(proto_hint: Option<r::Proto>, data: &[u8]) -> Option<Vec<u8>> {
    let payload = if data.len() >= 12 && &data[..8] == r::MAGIC { &data[12..] } else { data };
    let _ = proto_hint;
    r::decode(payload).ok().and_then(|(m, _)| m.get(r::NONC).map(|n| n.to_vec()))
}

pub fn response_proto(data: &[u8]) -> r::Proto {
    if data.len() >= 12 && &data[..8] == r::MAGIC {
        r::Proto::Ietf
    } else {
        r::Proto::Classic
    }
}

impl View {
    pub fn build(out: &RunOut) -> View {
        let w = &out.world;
        let sut_procs: BTreeSet<ProcId> = w.procs.iter().filter(|p| p.sut).map(|p| p.id).collect();
        let srv = &out.ctx.srv;
        let long_pk = &out.ctx.long_pk;
        let mut recvs: Vec<RecvRec> = Vec::new();
        let mut sends: Vec<SendRec> = Vec::new();
        let mut batches: Vec<Batch> = Vec::new();
        let mut clocks: BTreeMap<TaskId, Vec<(u64, i128)>> = BTreeMap::new();
        let mut cur_batch: BTreeMap<TaskId, usize> = BTreeMap::new();
        // unmatched receive indices per (task)
        let mut pending: BTreeMap<TaskId, Vec<usize>> = BTreeMap::new();
        // sends that name no pending request (greased, or built for something ill-formed), per task,
        // waiting for the end of their batch
        let mut deferred: BTreeMap<TaskId, Vec<usize>> = BTreeMap::new();

        for rec in &w.history {
            let task = match rec.task {
                Some(t) => t,
                None => continue,
            };
            let proc = w.tasks[task].proc;
            if !sut_procs.contains(&proc) {
                continue;
            }
            match &rec.ev {
                Ev::UdpRecv { sock, src, dgram, data, truncated_to } => {
                    resolve_deferred(task, &mut deferred, &mut pending, &mut recvs, &mut sends, long_pk);
                    // judged on the datagram as it arrived, not on what fitted the receiver's buffer
                    let _ = truncated_to;
                    let class = r::classify_request(data, srv);
                    recvs.push(RecvRec { seq: rec.seq, t: rec.t, task, proc, sock: *sock, src: *src, dgram: *dgram, data: data.clone(), class, answers: vec![] });
                    pending.entry(task).or_default().push(recvs.len() - 1);
                    // a receive ends the task's current batch
                    cur_batch.remove(&task);
                }
                Ev::ClockRead { wall_ns } => {
                    resolve_deferred(task, &mut deferred, &mut pending, &mut recvs, &mut sends, long_pk);
                    clocks.entry(task).or_default().push((rec.seq, *wall_ns));
                    batches.push(Batch { task, clock_seq: rec.seq, clock_wall: *wall_ns, sends: vec![] });
                    cur_batch.insert(task, batches.len() - 1);
                }
                Ev::UdpSend { sock, dst, dgram, data, ok, err, .. } => {
                    let b = match cur_batch.get(&task) {
                        Some(b) => *b,
                        None => {
                            // a send without a preceding clock read: its own degenerate batch
                            batches.push(Batch { task, clock_seq: 0, clock_wall: -1, sends: vec![] });
                            cur_batch.insert(task, batches.len() - 1);
                            batches.len() - 1
                        }
                    };
                    let proto = response_proto(data);
                    let echo = response_nonce(Some(proto), data);
                    let cands: Vec<usize> = pending.get(&task).map(|v| v.iter().copied().filter(|&i| recvs[i].src == *dst).collect()).unwrap_or_default();
                    let mut chosen: Option<(usize, &'static str, Option<Result<r::Verified, r::Reject>>)> = None;
                    // 1. a candidate for which the response verifies in full
                    for &i in &cands {
                        if let Ok(info) = &recvs[i].class {
                            if info.proto == proto {
                                let v = r::verify_response(data, &r::VerifyOpts { proto, request: &recvs[i].data, nonce: &info.nonce, long_term_pk: if long_pk.is_empty() { None } else { Some(long_pk) }, require_nonce_echo: true, lenient: false });
                                if v.is_ok() {
                                    chosen = Some((i, "verified", Some(v)));
                                    break;
                                }
                            }
                        }
                    }
                    // 2. same nonce
                    if chosen.is_none() {
                        if let Some(e) = &echo {
                            for &i in &cands {
                                if let Ok(info) = &recvs[i].class {
                                    if &info.nonce == e {
                                        let v = r::verify_response(data, &r::VerifyOpts { proto: info.proto, request: &recvs[i].data, nonce: &info.nonce, long_term_pk: if long_pk.is_empty() { None } else { Some(long_pk) }, require_nonce_echo: true, lenient: false });
                                        chosen = Some((i, "nonce", Some(v)));
                                        break;
                                    }
                                }
                            }
                        }
                    }
                    // 2b / 3 (ill-formed datagram with the echoed nonce; oldest unanswered datagram from
                    // that address) are decided when the batch is over, after every response of the
                    // batch that names its request has claimed it: see `resolve_deferred`
                    let defer = chosen.is_none();
                    let (request, how, verdict) = match chosen {
                        Some((i, h, v)) => (Some(i), h, v),
                        None => (None, "none", None),
                    };
                    if let Some(i) = request {
                        recvs[i].answers.push(sends.len());
                        if let Some(p) = pending.get_mut(&task) {
                            p.retain(|&x| x != i);
                        }
                    }
                    batches[b].sends.push(sends.len());
                    if defer {
                        deferred.entry(task).or_default().push(sends.len());
                    }
                    sends.push(SendRec { seq: rec.seq, t: rec.t, task, proc, sock: *sock, dst: *dst, dgram: *dgram, data: data.clone(), ok: *ok, err, request, how, batch: b, verdict });
                }
                _ => {}
            }
        }
        let tasks: Vec<TaskId> = deferred.keys().copied().collect();
        for t in tasks {
            resolve_deferred(t, &mut deferred, &mut pending, &mut recvs, &mut sends, long_pk);
        }
        View { recvs, sends, batches, clocks, sut_procs }
    }

    /// all receives matched at least once (answered), etc.
    pub fn answered(&self) -> usize {
        self.recvs.iter().filter(|r| !r.answers.is_empty()).count()
    }
}

/// Attribute the responses of a finished batch that name no pending request: to an ill-formed
/// datagram carrying the echoed nonce, else to the oldest unanswered datagram from the address
/// they were sent to. Responses that do name their request claimed it when they were sent, so a
/// response that cannot be told apart (a greased one) never displaces one that can, whatever the
/// order in which a batch is answered.
fn resolve_deferred(task: TaskId, deferred: &mut BTreeMap<TaskId, Vec<usize>>, pending: &mut BTreeMap<TaskId, Vec<usize>>, recvs: &mut Vec<RecvRec>, sends: &mut Vec<SendRec>, long_pk: &[u8]) {
    let list = match deferred.remove(&task) {
        Some(l) => l,
        None => return,
    };
    for si in list {
        let dst = sends[si].dst;
        let data = sends[si].data.clone();
        let proto = response_proto(&data);
        let echo = response_nonce(Some(proto), &data);
        let cands: Vec<usize> = pending.get(&task).map(|v| v.iter().copied().filter(|&i| recvs[i].src == dst).collect()).unwrap_or_default();
        let mut chosen: Option<(usize, &'static str, Option<Result<r::Verified, r::Reject>>)> = None;
        let data = &data;
        // 2b. an ill-formed datagram carrying the echoed nonce (best-effort decode): the
        // response was evidently built from it
        if chosen.is_none() {
            if let Some(e) = &echo {
                for &i in &cands {
                    if recvs[i].class.is_err() && response_nonce(None, &recvs[i].data).as_ref() == Some(e) {
                        chosen = Some((i, "nonce-illformed", None));
                        break;
                    }
                }
            }
        }
        // 3. oldest unanswered datagram from that address
        if chosen.is_none() {
            // prefer a datagram of the response's own protocol (responses leave in
            // request order per protocol), else any datagram from that address
            // (a request the protocol obliges the server to answer is a likelier origin than
            // one it may ignore, e.g. a non-standard nonce length that stays unanswered)
            let must_answer = cands.iter().copied().find(|&i| matches!(&recvs[i].class, Ok(info) if info.proto == proto && info.must == r::Must::Answer));
            let same_proto = cands.iter().copied().find(|&i| matches!(&recvs[i].class, Ok(info) if info.proto == proto));
            if let Some(i) = must_answer.or(same_proto).or(cands.first().copied()) {
                let v = match &recvs[i].class {
                    Ok(info) => Some(r::verify_response(data, &r::VerifyOpts { proto: info.proto, request: &recvs[i].data, nonce: &info.nonce, long_term_pk: if long_pk.is_empty() { None } else { Some(long_pk) }, require_nonce_echo: true, lenient: false })),
                    Err(_) => None,
                };
                chosen = Some((i, "addr", v));
            }
        }

        if let Some((i, how, verdict)) = chosen {
            sends[si].request = Some(i);
            sends[si].how = how;
            sends[si].verdict = verdict;
            recvs[i].answers.push(si);
            if let Some(p) = pending.get_mut(&task) {
                p.retain(|&x| x != i);
            }
        }
    }
}

/// Panics of SUT tasks: (task name, proc, message, location)
pub fn sut_panics(out: &RunOut) -> Vec<(String, ProcId, String, String)> {
    let w = &out.world;
    w.history
        .iter()
        .filter_map(|r| match &r.ev {
            Ev::Panic { task, proc, msg, loc } if w.procs[*proc].sut => Some((w.tasks[*task].name.clone(), *proc, msg.clone(), loc.clone())),
            _ => None,
        })
        .collect()
}

pub fn short_site(msg: &str) -> String {
    let m: String = msg.chars().take(60).collect();
    m.replace(|c: char| c.is_ascii_digit(), "#")
}
