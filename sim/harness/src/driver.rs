//! Search driver: seeded runs across child processes, minimisation, replay files, evidence,
//! known findings.

use crate::exec;
use crate::plan::*;
use crate::scen::{self, CheckOut, Property, Tier};
use serde::{Deserialize, Serialize};
use std::collections::{BTreeMap, BTreeSet};
use std::path::PathBuf;
use std::time::Instant;

pub fn verif_dir() -> PathBuf {
    PathBuf::from(std::env::var("VERIF_DIR").unwrap_or_else(|_| "/verif".to_string()))
}

pub fn base_seed() -> u64 {
    std::env::var("VERIF_SEED").ok().and_then(|s| s.trim().parse::<u64>().ok()).unwrap_or(20_261_002)
}

pub fn jobs() -> usize {
    std::env::var("VERIF_JOBS").ok().and_then(|s| s.parse().ok()).unwrap_or_else(|| std::thread::available_parallelism().map(|n| n.get()).unwrap_or(4).min(16))
}

#[derive(Serialize, Deserialize, Clone, Debug)]
pub struct Found {
    pub seed: u64,
    pub idx: u64,
    pub violation: Violation,
}

#[derive(Serialize, Deserialize, Clone, Debug, Default)]
pub struct Agg {
    pub evaluations: u64,
    pub nontrivial: u64,
    pub fingerprints: BTreeSet<u64>,
    pub sim_ns: u128,
    pub steps: u64,
    pub tape_cells: u64,
    pub faults_fired: BTreeMap<String, u64>,
    pub faults_offered: BTreeMap<String, u64>,
    pub probes: BTreeMap<String, u64>,
    pub counters: BTreeMap<String, u64>,
    pub scenarios: BTreeMap<String, u64>,
    pub outcomes: BTreeMap<String, u64>,
    pub samples: Vec<serde_json::Value>,
    pub found: Vec<Found>,
    pub violating_runs: u64,
    pub busy_s: f64,
    #[serde(default)]
    pub cases: u64,
    #[serde(default)]
    pub cases_distinct: u64,
    /// the child stopped at this index because the execution spun without reaching a seam
    #[serde(default)]
    pub aborted_at: Option<u64>,
}

impl Agg {
    pub fn merge(&mut self, o: Agg) {
        self.evaluations += o.evaluations;
        self.nontrivial += o.nontrivial;
        self.fingerprints.extend(o.fingerprints);
        self.sim_ns += o.sim_ns;
        self.steps += o.steps;
        self.tape_cells += o.tape_cells;
        for (k, v) in o.faults_fired {
            *self.faults_fired.entry(k).or_insert(0) += v;
        }
        for (k, v) in o.faults_offered {
            *self.faults_offered.entry(k).or_insert(0) += v;
        }
        for (k, v) in o.probes {
            *self.probes.entry(k).or_insert(0) += v;
        }
        for (k, v) in o.counters {
            *self.counters.entry(k).or_insert(0) += v;
        }
        for (k, v) in o.scenarios {
            *self.scenarios.entry(k).or_insert(0) += v;
        }
        for (k, v) in o.outcomes {
            *self.outcomes.entry(k).or_insert(0) += v;
        }
        for s in o.samples {
            if self.samples.len() < 6 {
                self.samples.push(s);
            }
        }
        self.found.extend(o.found);
        self.violating_runs += o.violating_runs;
        self.busy_s += o.busy_s;
        self.cases += o.cases;
        self.cases_distinct += o.cases_distinct;
    }
}

// ------------------------------------------------------------------------------------------
// watchdog: a simulated execution that stops reaching seams is an infinite loop in the code
// under test (nothing in the simulator can pre-empt it)
// ------------------------------------------------------------------------------------------

pub const SPIN_LIMIT_S: u64 = 20;
static RUN_STARTED: std::sync::atomic::AtomicU64 = std::sync::atomic::AtomicU64::new(0);

fn now_ms() -> u64 {
    std::time::SystemTime::now().duration_since(std::time::UNIX_EPOCH).map(|d| d.as_millis() as u64).unwrap_or(1)
}

/// Start the watchdog thread; `on_spin(task name, steps)` runs on that thread and must end the process.
pub fn start_watchdog(on_spin: impl Fn(String, u64) + Send + 'static) {
    std::thread::spawn(move || loop {
        std::thread::sleep(std::time::Duration::from_millis(250));
        let s = RUN_STARTED.load(std::sync::atomic::Ordering::SeqCst);
        if s != 0 && now_ms().saturating_sub(s) > SPIN_LIMIT_S * 1000 {
            let (task, steps) = dsim::RUNNING_TASK.lock().map(|g| g.clone()).unwrap_or_default();
            on_spin(task, steps);
            std::process::exit(2);
        }
    });
}

pub fn spin_violation(prop: &str, task: &str, steps: u64) -> Violation {
    Violation {
        property: prop.to_string(),
        class: "task_spins_without_io".into(),
        signature: format!("{}|task_spins_without_io", prop),
        detail: format!("task {} ran for more than {} s of wall-clock time after scheduler step {} without reaching any seam (no socket, poll, clock, lock, timer or sleep call): it is spinning inside the code under test", task, SPIN_LIMIT_S, steps),
    }
}

pub struct OneRun {
    pub out: exec::RunOut,
    pub co: CheckOut,
}

pub fn run_one(prop: &Property, plan: &Plan, tape: dsim::Tape) -> OneRun {
    RUN_STARTED.store(now_ms(), std::sync::atomic::Ordering::SeqCst);
    let out = exec::run(plan, tape);
    let co = (prop.check)(plan, &out);
    RUN_STARTED.store(0, std::sync::atomic::Ordering::SeqCst);
    OneRun { out, co }
}

fn absorb(agg: &mut Agg, plan: &Plan, idx: u64, r: &OneRun) {
    agg.evaluations += 1;
    *agg.scenarios.entry(plan.scenario.clone()).or_insert(0) += 1;
    *agg.outcomes.entry(format!("{:?}", r.out.outcome)).or_insert(0) += 1;
    if r.co.nontrivial {
        agg.nontrivial += 1;
        agg.fingerprints.insert(r.out.world.fingerprint);
    }
    if let Some((c, d)) = r.co.cases {
        agg.cases += c;
        agg.cases_distinct += d;
    }
    agg.sim_ns += r.out.world.now as u128;
    agg.steps += r.out.world.steps;
    agg.tape_cells += r.out.world.tape.recorded.len() as u64;
    for (k, v) in &r.out.world.fault_fired {
        *agg.faults_fired.entry(k.to_string()).or_insert(0) += v;
    }
    for (k, v) in &r.out.world.fault_offered {
        *agg.faults_offered.entry(k.to_string()).or_insert(0) += v;
    }
    for (k, v) in &r.out.world.probes {
        *agg.probes.entry(k.to_string()).or_insert(0) += v;
    }
    for (k, v) in &r.co.probes {
        *agg.probes.entry(k.clone()).or_insert(0) += v;
    }
    for (k, v) in &r.co.counters {
        *agg.counters.entry(k.clone()).or_insert(0) += v;
    }
    if let Some(s) = &r.co.sample {
        if agg.samples.len() < 3 && (r.co.nontrivial || agg.evaluations > 50) {
            agg.samples.push(s.clone());
        }
    }
    if !r.co.violations.is_empty() {
        agg.violating_runs += 1;
    }
    for v in &r.co.violations {
        let same = agg.found.iter().filter(|f| f.violation.signature == v.signature).count();
        if same < 3 && agg.found.len() < 60 {
            agg.found.push(Found { seed: plan.seed, idx, violation: v.clone() });
        }
    }
}

/// child process: run indices start, start+stride, ... (count of them)
pub fn worker(id: &str, tier: Tier, base: u64, start: u64, stride: u64, total: u64, out_path: &str, deadline_s: f64) {
    let prop = scen::find(id).expect("unknown property");
    let agg = std::sync::Arc::new(std::sync::Mutex::new(Agg::default()));
    let cur = std::sync::Arc::new(std::sync::Mutex::new((0u64, 0u64, String::new())));
    {
        let (agg, cur, out_path, id) = (agg.clone(), cur.clone(), out_path.to_string(), id.to_string());
        start_watchdog(move |task, steps| {
            let (idx, seed, scenario) = cur.lock().map(|g| g.clone()).unwrap_or_default();
            let mut a = agg.lock().map(|g| g.clone()).unwrap_or_default();
            a.evaluations += 1;
            a.violating_runs += 1;
            *a.scenarios.entry(scenario).or_insert(0) += 1;
            a.found.push(Found { seed, idx, violation: spin_violation(&id, &task, steps) });
            a.aborted_at = Some(idx);
            let _ = std::fs::write(&out_path, serde_json::to_vec(&a).unwrap());
            std::process::exit(0);
        });
    }
    let t0 = Instant::now();
    let mut idx = start;
    while idx < total {
        if t0.elapsed().as_secs_f64() > deadline_s {
            break;
        }
        let seed = scen::run_seed(base, idx);
        let plan = (prop.gen)(seed, idx, tier);
        *cur.lock().unwrap() = (idx, plan.seed, plan.scenario.clone());
        let r = run_one(&prop, &plan, dsim::Tape::search(plan.seed));
        absorb(&mut agg.lock().unwrap(), &plan, idx, &r);
        idx += stride;
    }
    let mut a = agg.lock().unwrap().clone();
    a.busy_s = t0.elapsed().as_secs_f64();
    std::fs::write(out_path, serde_json::to_vec(&a).unwrap()).expect("write child result");
}

// ------------------------------------------------------------------------------------------
// known findings
// ------------------------------------------------------------------------------------------

#[derive(Serialize, Deserialize, Clone, Debug)]
pub struct KnownEntry {
    pub status: String,
    pub property: String,
    pub signature: String,
    pub what: String,
    #[serde(default)]
    pub commit: String,
}

#[derive(Serialize, Deserialize, Clone, Debug, Default)]
pub struct KnownFile {
    pub findings: Vec<KnownEntry>,
}

pub fn load_known() -> KnownFile {
    let p = verif_dir().join("known_findings.json");
    match std::fs::read(&p) {
        Ok(b) => serde_json::from_slice(&b).expect("known_findings.json does not parse"),
        Err(_) => KnownFile::default(),
    }
}

pub fn known_match<'a>(k: &'a KnownFile, v: &Violation) -> Option<&'a KnownEntry> {
    k.findings.iter().find(|e| e.status == "known" && e.property == v.property && e.signature == v.signature)
}

// ------------------------------------------------------------------------------------------
// trace rendering
// ------------------------------------------------------------------------------------------

pub fn render_trace(out: &exec::RunOut, max: usize) -> Vec<String> {
    let w = &out.world;
    let mut lines = Vec::new();
    for r in &w.history {
        let who = r.task.map(|t| format!("{}/{}", w.procs[w.tasks[t].proc].name, w.tasks[t].name)).unwrap_or_else(|| "-".to_string());
        let what = match &r.ev {
            dsim::Ev::UdpSend { src, dst, dgram, data, ok, err, .. } => format!("send #{} {}->{} {}B {}", dgram, src, dst, data.len(), if *ok { "ok".to_string() } else { format!("ERR {}", err) }),
            dsim::Ev::UdpRecv { src, dgram, data, .. } => format!("recv #{} from {} {}B", dgram, src, data.len()),
            dsim::Ev::UdpRecvEmpty { .. } => continue,
            dsim::Ev::Deliver { dgram, sock, phantom } => format!("deliver #{} -> sock {}{}", dgram, sock, if *phantom { " (phantom)" } else { "" }),
            dsim::Ev::Entropy { .. } | dsim::Ev::MutexLock { .. } | dsim::Ev::MutexUnlock { .. } | dsim::Ev::TimerNew { .. } => continue,
            dsim::Ev::PollRet { tokens, spurious, .. } => {
                if tokens.is_empty() && !*spurious {
                    continue;
                }
                format!("poll -> {:?}{}", tokens, if *spurious { " (spurious)" } else { "" })
            }
            other => {
                let s = format!("{:?}", other);
                if s.len() > 220 {
                    format!("{}...", &s[..220])
                } else {
                    s
                }
            }
        };
        lines.push(format!("[{:>6} {:>12.6}s {}] {}", r.seq, r.t as f64 / 1e9, who, what));
    }
    if lines.len() > max {
        let tail = lines.split_off(lines.len() - max / 2);
        lines.truncate(max / 2);
        lines.push("...".to_string());
        lines.extend(tail);
    }
    lines
}

// ------------------------------------------------------------------------------------------
// minimisation
// ------------------------------------------------------------------------------------------

fn reproduces(prop: &Property, plan: &Plan, tape: &[u32], signature: &str) -> Option<OneRun> {
    let r = run_one(prop, plan, dsim::Tape::replay(tape.to_vec()));
    if r.co.violations.iter().any(|v| v.signature == signature) {
        Some(r)
    } else {
        None
    }
}

/// Shrink (plan, tape) while the same violation signature recurs. Bounded by `budget_s`.
pub fn minimise(prop: &Property, plan: &Plan, tape: &[u32], signature: &str, budget_s: f64) -> (Plan, Vec<u32>) {
    let t0 = Instant::now();
    let mut plan = plan.clone();
    let mut tape = tape.to_vec();
    let over = |t0: &Instant| t0.elapsed().as_secs_f64() > budget_s;

    // 1. tape: all zeros, then drop suffix
    if reproduces(prop, &plan, &[], signature).is_some() {
        tape.clear();
    }
    // 2. fault-free world
    {
        let mut p2 = plan.clone();
        p2.world.faults = FaultsSpec::default();
        if p2 != plan && reproduces(prop, &p2, &tape, signature).is_some() {
            plan = p2;
        }
    }
    for _round in 0..3 {
        let before = plan.clone();
        // 3. steps: delta debugging
        let mut chunk = (plan.steps.len() / 2).max(1);
        while chunk >= 1 && !over(&t0) {
            let mut i = 0;
            let mut progressed = false;
            while i < plan.steps.len() && !over(&t0) {
                let mut p2 = plan.clone();
                let end = (i + chunk).min(p2.steps.len());
                p2.steps.drain(i..end);
                if reproduces(prop, &p2, &tape, signature).is_some() {
                    plan = p2;
                    progressed = true;
                } else {
                    i += chunk;
                }
            }
            if chunk == 1 && !progressed {
                break;
            }
            chunk = if chunk == 1 { if progressed { 1 } else { 0 } } else { chunk / 2 };
            if chunk == 0 {
                break;
            }
        }
        // 4. simpler machine
        for f in [
            (|p: &mut Plan| p.world.strategy = StrategySpec::Uniform) as fn(&mut Plan),
            |p: &mut Plan| p.world.cost_scale = 1000,
            |p: &mut Plan| p.world.flow_hash = Some(0),
            |p: &mut Plan| p.world.latency_jitter_us = 0,
            |p: &mut Plan| {
                if let Some(s) = p.server.as_mut() {
                    if s.workers > 1 {
                        s.workers = 1
                    }
                }
            },
            |p: &mut Plan| {
                if let Some(s) = p.server.as_mut() {
                    s.log_level = Some(0)
                }
            },
        ] {
            if over(&t0) {
                break;
            }
            let mut p2 = plan.clone();
            f(&mut p2);
            if p2 != plan && reproduces(prop, &p2, &tape, signature).is_some() {
                plan = p2;
            }
        }
        if plan == before {
            break;
        }
    }
    // 5. tape cells: truncate, then zero blocks
    if !tape.is_empty() {
        let mut n = tape.len() / 2;
        while n > 0 && !over(&t0) {
            let t2 = tape[..tape.len() - n].to_vec();
            if reproduces(prop, &plan, &t2, signature).is_some() {
                tape = t2;
            }
            n /= 2;
        }
        let mut block = (tape.len() / 4).max(1);
        while block >= 1 && !over(&t0) {
            let mut i = 0;
            while i < tape.len() && !over(&t0) {
                let end = (i + block).min(tape.len());
                if tape[i..end].iter().any(|c| *c != 0) {
                    let mut t2 = tape.clone();
                    for c in &mut t2[i..end] {
                        *c = 0;
                    }
                    if reproduces(prop, &plan, &t2, signature).is_some() {
                        tape = t2;
                    }
                }
                i += block;
            }
            if block == 1 {
                break;
            }
            block /= 2;
        }
    }
    // shorten the horizon to just past the last needed step
    {
        let mut p2 = plan.clone();
        let need = p2.last_step_us() / 1000 + 400;
        if need < p2.world.horizon_ms {
            p2.world.horizon_ms = need;
            if reproduces(prop, &p2, &tape, signature).is_some() {
                plan = p2;
            }
        }
    }
    (plan, tape)
}

pub fn repo_tree() -> String {
    let head = std::process::Command::new("git").args(["-C", "/repo", "rev-parse", "--short", "HEAD"]).output().ok().map(|o| String::from_utf8_lossy(&o.stdout).trim().to_string()).unwrap_or_default();
    let dirty = std::process::Command::new("git").args(["-C", "/repo", "status", "--porcelain", "--untracked-files=no"]).output().ok().map(|o| !o.stdout.is_empty()).unwrap_or(false);
    format!("{}{}", head, if dirty { "+dirty" } else { "" })
}

pub fn write_replay(prop: &Property, plan: &Plan, tape: &[u32], v: &Violation) -> Option<PathBuf> {
    // final run: recorded tape, digest, trace
    let r = reproduces(prop, plan, tape, &v.signature)?;
    let viol = r.co.violations.iter().find(|x| x.signature == v.signature).cloned().unwrap();
    let digest = format!("{:016x}", r.out.world.hist_hash);
    let rep = Replay {
        property: prop.id.to_string(),
        seed: plan.seed,
        plan: plan.clone(),
        tape: r.out.world.tape.recorded.clone(),
        violation: viol,
        history_digest: digest.clone(),
        events: render_trace(&r.out, 400),
        repo_tree: repo_tree(),
    };
    let dir = verif_dir().join("replays");
    std::fs::create_dir_all(&dir).ok()?;
    let path = dir.join(format!("{}-{}-{}.json", prop.id, plan.seed, &digest[..8]));
    std::fs::write(&path, serde_json::to_vec_pretty(&rep).unwrap()).ok()?;
    Some(path)
}

/// `simcheck replay <file>`: re-execute plan + tape without any PRNG.
/// exit 1 + VIOLATION line when the recorded violation recurs with the recorded digest;
/// exit 0 when it does not recur (e.g. the tree was repaired); exit 2 when it recurs with a
/// different history (harness error).
pub fn replay_file(path: &str) -> i32 {
    let rep: Replay = match std::fs::read(path).ok().and_then(|b| serde_json::from_slice(&b).ok()) {
        Some(r) => r,
        None => {
            eprintln!("cannot read replay file {}", path);
            return 2;
        }
    };
    let prop = match scen::find(&rep.property) {
        Some(p) => p,
        None => {
            eprintln!("unknown property {}", rep.property);
            return 2;
        }
    };
    {
        let (p, path) = (rep.property.clone(), path.to_string());
        let expected_spin = rep.violation.class == "task_spins_without_io";
        start_watchdog(move |task, steps| {
            let v = spin_violation(&p, &task, steps);
            println!("reproduced: {} — {}", v.signature, v.detail);
            println!("VIOLATION property={} replay={}", p, path);
            std::process::exit(if expected_spin { 1 } else { 2 });
        });
    }
    // a recorded spin is replayed in search mode from the plan's seed (no tape was recorded)
    let tape = if rep.violation.class == "task_spins_without_io" { dsim::Tape::search(rep.plan.seed) } else { dsim::Tape::replay(rep.tape.clone()) };
    let r = run_one(&prop, &rep.plan, tape);
    let digest = format!("{:016x}", r.out.world.hist_hash);
    for l in render_trace(&r.out, 80) {
        println!("{}", l);
    }
    match r.co.violations.iter().find(|v| v.signature == rep.violation.signature) {
        Some(v) => {
            println!("reproduced: {} — {}", v.signature, v.detail);
            println!("history digest {} (recorded {})", digest, rep.history_digest);
            println!("VIOLATION property={} replay={}", rep.property, path);
            if digest != rep.history_digest && rep.repo_tree == repo_tree() {
                eprintln!("HARNESS ERROR: same tree, different history digest");
                return 2;
            }
            1
        }
        None => {
            println!("not reproduced on this tree (recorded on {}, now {}); other violations: {:?}", rep.repo_tree, repo_tree(), r.co.violations.iter().map(|v| &v.signature).collect::<Vec<_>>());
            0
        }
    }
}

// ------------------------------------------------------------------------------------------
// the check command
// ------------------------------------------------------------------------------------------

pub fn check(id: &str, tier: Tier) -> i32 {
    let prop = match scen::find(id) {
        Some(p) => p,
        None => {
            eprintln!("unknown property {}", id);
            return 2;
        }
    };
    let t0 = Instant::now();
    let base = base_seed();
    println!("VERIF_SEED={} property={} tier={:?}", base, id, tier);
    // VERIF_SCALE multiplies the run budget (developer sweeps); registered commands leave it unset
    let scale: u64 = std::env::var("VERIF_SCALE").ok().and_then(|s| s.parse().ok()).unwrap_or(1).max(1);
    let total = (prop.budget)(tier) * scale;
    let n = jobs().max(1) as u64;
    let exe = std::env::current_exe().expect("current exe");
    let tmp = verif_dir().join("sim/target/run");
    let _ = std::fs::create_dir_all(&tmp);
    let deadline_s: f64 = std::env::var("VERIF_DEADLINE_S").ok().and_then(|s| s.parse().ok()).unwrap_or(match tier {
        Tier::Quick => 150.0,
        Tier::Thorough => 2400.0,
    });
    let spawn = |k: u64, start: u64, gen: u32| {
        let out = tmp.join(format!("{}-{}-{}-{}.json", id, std::process::id(), k, gen));
        let child = std::process::Command::new(&exe)
            .args(["worker", id, if tier == Tier::Quick { "quick" } else { "thorough" }, &base.to_string(), &start.to_string(), &n.to_string(), &total.to_string(), out.to_str().unwrap(), &deadline_s.to_string()])
            .env("TZ", "UTC")
            .spawn()
            .expect("spawn worker");
        (child, out, gen)
    };
    let mut kids = Vec::new();
    for k in 0..n.min(total.max(1)) {
        kids.push(spawn(k, k, 0));
    }
    let mut agg = Agg::default();
    let mut harness_error = false;
    while let Some((mut c, out, gen)) = kids.pop() {
        let st = c.wait().expect("wait");
        if !st.success() {
            eprintln!("HARNESS ERROR: worker exited with {:?}", st);
            harness_error = true;
        }
        match std::fs::read(&out).ok().and_then(|b| serde_json::from_slice::<Agg>(&b).ok()) {
            Some(a) => {
                // a child that met a spinning execution stops there: carry on after that index
                if let Some(at) = a.aborted_at {
                    if gen < 8 && at + n < total {
                        kids.push(spawn(at % n, at + n, gen + 1));
                    }
                }
                agg.merge(a)
            }
            None => harness_error = true,
        }
        let _ = std::fs::remove_file(&out);
    }
    if harness_error {
        return 2;
    }

    // aggregate oracles
    let mut agg_violations = (prop.finalize)(&agg.counters, tier);

    // group per-run violations by signature, deterministic order
    agg.found.sort_by_key(|f| (f.violation.signature.clone(), f.idx));
    let known = load_known();
    let mut sigs: Vec<String> = agg.found.iter().map(|f| f.violation.signature.clone()).collect();
    sigs.dedup();
    let mut exit = 0;
    let mut known_met: Vec<String> = Vec::new();
    let mut new_viol = 0;
    let mut minimised = 0;
    for sig in &sigs {
        let f = agg.found.iter().find(|f| &f.violation.signature == sig).unwrap();
        if let Some(k) = known_match(&known, &f.violation) {
            println!("KNOWN-FINDING: property={} {} [{}]", k.property, k.what, k.signature);
            known_met.push(k.signature.clone());
            continue;
        }
        new_viol += 1;
        exit = 1;
        let do_minimise = minimised < 5;
        minimised += 1;
        // regenerate, re-run in search mode to obtain the tape, minimise, write the replay file
        let plan = (prop.gen)(scen::run_seed(base, f.idx), f.idx, tier);
        if f.violation.class == "task_spins_without_io" {
            // cannot be re-executed in this process (it would spin here too): the replay file holds
            // the plan; `simcheck replay` runs it under the same watchdog
            let rep = Replay { property: prop.id.to_string(), seed: plan.seed, plan: plan.clone(), tape: vec![], violation: f.violation.clone(), history_digest: "spinning".into(), events: vec![], repo_tree: repo_tree() };
            let dir = verif_dir().join("replays");
            let _ = std::fs::create_dir_all(&dir);
            let path = dir.join(format!("{}-{}-spin.json", prop.id, plan.seed));
            let _ = std::fs::write(&path, serde_json::to_vec_pretty(&rep).unwrap());
            println!("  {} — {}", sig, f.violation.detail);
            println!("VIOLATION property={} replay={}", f.violation.property, path.display());
            continue;
        }
        let first = run_one(&prop, &plan, dsim::Tape::search(plan.seed));
        let tape = first.out.world.tape.recorded.clone();
        if !first.co.violations.iter().any(|v| &v.signature == sig) {
            eprintln!("HARNESS ERROR: violation {} of seed {} did not recur in the parent process", sig, f.seed);
            return 2;
        }
        // at most five violations are minimised per check; the others are reported with the
        // plan and tape as found
        let (mp, mt) = if do_minimise { minimise(&prop, &plan, &tape, sig, 20.0) } else { (plan.clone(), tape.clone()) };
        match write_replay(&prop, &mp, &mt, &f.violation) {
            Some(path) => {
                // replay the minimised file in a fresh process; it must fail the same way
                let st = std::process::Command::new(&exe).args(["replay", path.to_str().unwrap()]).env("TZ", "UTC").stdout(std::process::Stdio::null()).status();
                let code = st.ok().and_then(|s| s.code()).unwrap_or(2);
                if code != 1 {
                    eprintln!("HARNESS ERROR: replay of {} in a fresh process exited {}", path.display(), code);
                    return 2;
                }
                println!("  {} — {}", sig, f.violation.detail);
                println!("  minimised to {} steps, {} tape cells (from {} steps, {} cells)", mp.steps.len(), mt.len(), plan.steps.len(), tape.len());
                println!("VIOLATION property={} replay={}", f.violation.property, path.display());
            }
            None => {
                eprintln!("HARNESS ERROR: could not write replay for {}", sig);
                return 2;
            }
        }
    }
    for v in agg_violations.drain(..) {
        if let Some(k) = known_match(&known, &v) {
            println!("KNOWN-FINDING: property={} {} [{}]", k.property, k.what, k.signature);
            known_met.push(k.signature.clone());
            continue;
        }
        new_viol += 1;
        exit = 1;
        let dir = verif_dir().join("replays");
        let _ = std::fs::create_dir_all(&dir);
        let path = dir.join(format!("{}-aggregate-{}.json", id, base));
        let _ = std::fs::write(&path, serde_json::to_vec_pretty(&serde_json::json!({"property": id, "aggregate": true, "base_seed": base, "tier": format!("{:?}", tier), "violation": v, "counters": agg.counters, "how_to_replay": format!("VERIF_SEED={} ./check {} {}", base, id, if tier == Tier::Quick { "quick" } else { "thorough" })})).unwrap());
        println!("  {} — {}", v.signature, v.detail);
        println!("VIOLATION property={} replay={}", id, path.display());
    }

    let wall = t0.elapsed().as_secs_f64();
    write_evidence(&prop, tier, base, &agg, wall, new_viol, &known_met);
    println!(
        "{} {:?}: {} runs ({} non-trivial, {} distinct schedule fingerprints), {:.1} simulated s, {:.1}s wall, {} violating runs, {} new violation signature(s), {} known",
        id,
        tier,
        agg.evaluations,
        agg.nontrivial,
        agg.fingerprints.len(),
        agg.sim_ns as f64 / 1e9,
        wall,
        agg.violating_runs,
        new_viol,
        known_met.len()
    );
    if agg.evaluations == 0 {
        eprintln!("HARNESS ERROR: no runs executed");
        return 2;
    }
    exit
}

fn write_evidence(prop: &Property, tier: Tier, base: u64, agg: &Agg, wall: f64, violations: u64, known_met: &[String]) {
    let per_hour = if wall > 0.0 { agg.evaluations as f64 / wall * 3600.0 } else { 0.0 };
    let ev = serde_json::json!({
        "property_id": prop.id,
        "tier": if tier == Tier::Quick { "quick" } else { "thorough" },
        "seed": base,
        "level": prop.level,
        "coverage": {
            "evaluations": if agg.cases > 0 { agg.cases } else { agg.evaluations },
            "distinct_nontrivial": if agg.cases > 0 { agg.cases_distinct } else { agg.fingerprints.len() as u64 },
            "simulated_executions": agg.evaluations,
            "rule": prop.rule,
            "samples": agg.samples,
            "nontrivial_runs": agg.nontrivial,
            "runs_per_hour": per_hour.round(),
            "seeds_per_hour": per_hour.round(),
            "simulated_seconds": agg.sim_ns as f64 / 1e9,
            "scheduler_steps": agg.steps,
            "tape_cells": agg.tape_cells,
            "runs_per_scenario": agg.scenarios,
            "run_outcomes": agg.outcomes,
            "fault_kinds_fired": agg.faults_fired,
            "fault_kinds_offered": agg.faults_offered,
            "reach_probes": agg.probes,
            "counters": agg.counters,
            "violating_runs": agg.violating_runs,
            "known_findings_met": known_met,
            "components_real": prop.real,
            "components_stub": prop.stub,
            "repo_tree": repo_tree(),
            "exhaustive": false,
        },
        "assumptions": prop.assumptions,
        "wall_s": wall,
        "violations": violations,
    });
    let dir = verif_dir().join("evidence");
    let _ = std::fs::create_dir_all(&dir);
    let _ = std::fs::write(dir.join(format!("{}.json", prop.id)), serde_json::to_vec_pretty(&ev).unwrap());
}

/// Determinism self-check: every seed twice in this process; digests must agree. Returns the list
/// of (idx, digest) so that separate processes can be compared by the caller.
pub fn determinism(id: &str, tier: Tier, start: u64, count: u64) -> (bool, Vec<(u64, String)>) {
    let prop = scen::find(id).expect("unknown property");
    let base = base_seed();
    let mut ok = true;
    let mut digests = Vec::new();
    for idx in start..start + count {
        let seed = scen::run_seed(base, idx);
        let plan = (prop.gen)(seed, idx, tier);
        let a = run_one(&prop, &plan, dsim::Tape::search(plan.seed));
        let b = run_one(&prop, &plan, dsim::Tape::search(plan.seed));
        let c = run_one(&prop, &plan, dsim::Tape::replay(a.out.world.tape.recorded.clone()));
        let (da, db, dc) = (a.out.world.hist_hash, b.out.world.hist_hash, c.out.world.hist_hash);
        let va: Vec<_> = a.co.violations.iter().map(|v| v.signature.clone()).collect();
        let vb: Vec<_> = b.co.violations.iter().map(|v| v.signature.clone()).collect();
        let vc: Vec<_> = c.co.violations.iter().map(|v| v.signature.clone()).collect();
        if da != db || da != dc || va != vb || va != vc {
            ok = false;
            println!("NONDETERMINISM property={} idx={} seed={} digests {:016x} {:016x} replay {:016x} violations {:?} {:?} {:?}", id, idx, seed, da, db, dc, va, vb, vc);
        }
        digests.push((idx, format!("{:016x}:{}", da, va.join(","))));
    }
    (ok, digests)
}
