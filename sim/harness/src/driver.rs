//! Search driver: seeded runs across child processes, minimisation, replay files, evidence,
//! known findings.

use crate::exec;
use crate::plan::*;
use crate::scen::{self, CheckOut, Property, Tier};
use serde::{Deserialize, Serialize};
use std::collections::{BTreeMap, BTreeSet};
use std::path::PathBuf;
use std::time::Instant;

pub fn verif_dir() -> PathBuf {
    PathBuf::from(std::env::var("VERIF_DIR").unwrap_or_else(|_| "/verif".to_string()))
}

pub fn base_seed() -> u64 {
    std::env::var("VERIF_SEED").ok().and_then(|s| s.trim().parse::<u64>().ok()).unwrap_or(20_261_002)
}

pub fn jobs() -> usize {
    std::env::var("VERIF_JOBS").ok().and_then(|s| s.parse().ok()).unwrap_or_else(|| std::thread::available_parallelism().map(|n| n.get()).unwrap_or(4).min(16))
}

#[derive(Serialize, Deserialize, Clone, Debug)]
pub struct Found {
    pub seed: u64,
    pub idx: u64,
    pub violation: Violation,
}

#[derive(Serialize, Deserialize, Clone, Debug, Default)]
pub struct Agg {
    pub evaluations: u64,
    pub nontrivial: u64,
    pub fingerprints: BTreeSet<u64>,
    pub sim_ns: u128,
    pub steps: u64,
    pub tape_cells: u64,
    pub faults_fired: BTreeMap<String, u64>,
    pub faults_offered: BTreeMap<String, u64>,
    pub probes: BTreeMap<String, u64>,
    pub counters: BTreeMap<String, u64>,
    pub scenarios: BTreeMap<String, u64>,
    pub outcomes: BTreeMap<String, u64>,
    pub samples: Vec<serde_json::Value>,
    pub found: Vec<Found>,
    pub violating_runs: u64,
    pub busy_s: f64,
    #[serde(default)]
    pub cases: u64,
    #[serde(default)]
    pub cases_distinct: u64,
    /// executions whose child process died (harness error, never a property verdict)
    #[serde(default)]
    pub crashed: Vec<String>,
}

impl Agg {
    pub fn merge(&mut self, o: Agg) {
        self.evaluations += o.evaluations;
        self.nontrivial += o.nontrivial;
        self.fingerprints.extend(o.fingerprints);
        self.sim_ns += o.sim_ns;
        self.steps += o.steps;
        self.tape_cells += o.tape_cells;
        for (k, v) in o.faults_fired {
            *self.faults_fired.entry(k).or_insert(0) += v;
        }
        for (k, v) in o.faults_offered {
            *self.faults_offered.entry(k).or_insert(0) += v;
        }
        for (k, v) in o.probes {
            *self.probes.entry(k).or_insert(0) += v;
        }
        for (k, v) in o.counters {
            *self.counters.entry(k).or_insert(0) += v;
        }
        for (k, v) in o.scenarios {
            *self.scenarios.entry(k).or_insert(0) += v;
        }
        for (k, v) in o.outcomes {
            *self.outcomes.entry(k).or_insert(0) += v;
        }
        for s in o.samples {
            if self.samples.len() < 6 {
                self.samples.push(s);
            }
        }
        self.found.extend(o.found);
        self.violating_runs += o.violating_runs;
        self.busy_s += o.busy_s;
        self.cases += o.cases;
        self.cases_distinct += o.cases_distinct;
        self.crashed.extend(o.crashed);
    }
}

// ------------------------------------------------------------------------------------------
// isolated executions
//
// Every simulated execution runs in a forked child of the calling process: process-global state
// of the code under test (statics, lazily initialised caches, the log facade's max level) starts
// from the same image every time, exactly as a freshly exec'ed server or client would, and an
// execution that stops reaching seams (an infinite loop in the code under test, which nothing
// inside a cooperative simulator can pre-empt) is killed after SPIN_LIMIT_S of wall-clock time.
// ------------------------------------------------------------------------------------------

pub const SPIN_LIMIT_S: u64 = 20;

#[derive(Serialize, Deserialize, Clone, Debug, Default)]
pub struct RunSummary {
    pub spun: bool,
    pub spin_task: String,
    pub spin_steps: u64,
    pub crashed: Option<String>,
    pub co: CheckOut,
    pub scenario: String,
    pub outcome: String,
    pub fingerprint: u64,
    pub hist_hash: u64,
    pub now: u64,
    pub steps: u64,
    pub tape_len: u64,
    pub tape: Vec<u32>,
    pub fault_fired: BTreeMap<String, u64>,
    pub fault_offered: BTreeMap<String, u64>,
    pub world_probes: BTreeMap<String, u64>,
    pub trace: Vec<String>,
}

#[derive(Clone, Debug)]
pub enum TapeSpec {
    Search(u64),
    Replay(Vec<u32>),
}

pub struct OneRun {
    pub out: exec::RunOut,
    pub co: CheckOut,
}

/// One execution in *this* process (used inside the forked child only).
pub fn run_one(prop: &Property, plan: &Plan, tape: dsim::Tape) -> OneRun {
    let out = exec::run(plan, tape);
    // the simulated execution is over: what follows (building the view, verifying every response)
    // is harness work, which the spin watchdog gives ten times its limit
    mark_post_phase();
    let mut co = (prop.check)(plan, &out);
    if out.outcome == dsim::Outcome::StepCap {
        // no scenario comes near the cap on a healthy tree: a task is looping through seam calls
        // (e.g. retrying a failing system call forever) without the simulated clock getting anywhere
        let busiest = out.world.tasks.iter().max_by_key(|t| t.ops).map(|t| format!("{}/{} ({} seam operations)", out.world.procs[t.proc].name, t.name, t.ops)).unwrap_or_default();
        co.violate(prop.id, "scheduler_step_cap", format!("{}|scheduler_step_cap", prop.id), format!("the execution took {} scheduler steps and reached only {:.3} simulated s: a task is spinning through seam calls; busiest task: {}", out.world.steps, out.world.now as f64 / 1e9, busiest));
    }
    OneRun { out, co }
}

fn summarize(plan: &Plan, r: &OneRun, want_tape: bool, trace_max: usize) -> RunSummary {
    let w = &r.out.world;
    RunSummary {
        spun: false,
        spin_task: String::new(),
        spin_steps: 0,
        crashed: None,
        co: r.co.clone(),
        scenario: plan.scenario.clone(),
        outcome: format!("{:?}", r.out.outcome),
        fingerprint: w.fingerprint,
        hist_hash: w.hist_hash,
        now: w.now,
        steps: w.steps,
        tape_len: w.tape.recorded.len() as u64,
        tape: if want_tape { w.tape.recorded.clone() } else { vec![] },
        fault_fired: w.fault_fired.iter().map(|(k, v)| (k.to_string(), *v)).collect(),
        fault_offered: w.fault_offered.iter().map(|(k, v)| (k.to_string(), *v)).collect(),
        world_probes: w.probes.iter().map(|(k, v)| (k.to_string(), *v)).collect(),
        trace: if trace_max > 0 { render_trace(&r.out, trace_max) } else { vec![] },
    }
}

enum Forked {
    Data(Vec<u8>),
    Timeout,
    Crashed(String),
}

fn spin_slot() -> *mut u8 {
    use std::sync::atomic::Ordering;
    let cur = dsim::SPIN_SLOT.load(Ordering::Relaxed);
    if !cur.is_null() {
        return cur;
    }
    let p = unsafe { libc::mmap(std::ptr::null_mut(), 4096, libc::PROT_READ | libc::PROT_WRITE, libc::MAP_SHARED | libc::MAP_ANONYMOUS, -1, 0) };
    if p == libc::MAP_FAILED {
        return std::ptr::null_mut();
    }
    dsim::SPIN_SLOT.store(p as *mut u8, Ordering::Relaxed);
    p as *mut u8
}

fn fork_run(f: impl FnOnce() -> Vec<u8>, timeout_s: u64) -> Forked {
    use std::io::Write;
    let _ = std::io::stdout().flush();
    let _ = std::io::stderr().flush();
    let mut fds = [0i32; 2];
    if unsafe { libc::pipe(fds.as_mut_ptr()) } != 0 {
        return Forked::Crashed("pipe() failed".into());
    }
    let pid = unsafe { libc::fork() };
    if pid < 0 {
        return Forked::Crashed("fork() failed".into());
    }
    if pid == 0 {
        // child: run, write the result, leave without running destructors or flushing inherited buffers
        unsafe { libc::close(fds[0]) };
        let data = std::panic::catch_unwind(std::panic::AssertUnwindSafe(f));
        let code = match data {
            Ok(d) => {
                let mut off = 0;
                while off < d.len() {
                    let n = unsafe { libc::write(fds[1], d[off..].as_ptr() as *const libc::c_void, d.len() - off) };
                    if n <= 0 {
                        break;
                    }
                    off += n as usize;
                }
                0
            }
            Err(_) => 3,
        };
        unsafe { libc::_exit(code) };
    }
    unsafe { libc::close(fds[1]) };
    // the limit applies to the time since the execution last reached a scheduling point (the step
    // counter the child mirrors into the shared slot), not to the execution as a whole: a long but
    // healthy run on a busy machine is not a spin
    let mut t0 = Instant::now();
    let mut buf = Vec::new();
    let mut chunk = vec![0u8; 1 << 16];
    let mut timed_out = false;
    let slot = dsim::SPIN_SLOT.load(std::sync::atomic::Ordering::Relaxed);
    let steps_now = || -> u64 {
        if slot.is_null() {
            return 0;
        }
        let mut b = [0u8; 8];
        unsafe { std::ptr::copy_nonoverlapping(slot.add(120), b.as_mut_ptr(), 8) };
        u64::from_le_bytes(b)
    };
    // ... and it applies to processor time as well as to wall-clock time: on an overloaded
    // machine a healthy child may not get the processor for many seconds; a spinning one burns
    // it whenever it runs. (Ten times the wall-clock limit ends the wait in any case.)
    let cpu_ms = || -> u64 {
        std::fs::read_to_string(format!("/proc/{}/stat", pid))
            .ok()
            .and_then(|t| {
                let rest = t.rsplit(')').next()?.to_string();
                let f: Vec<&str> = rest.split_whitespace().collect();
                Some((f.get(11)?.parse::<u64>().ok()? + f.get(12)?.parse::<u64>().ok()?) * 10)
            })
            .unwrap_or(u64::MAX / 4)
    };
    let mut last_steps = steps_now();
    let mut cpu0 = cpu_ms();
    loop {
        let s = steps_now();
        if s != last_steps {
            last_steps = s;
            t0 = Instant::now();
            cpu0 = cpu_ms();
        }
        let limit_ms = if last_steps == POST_PHASE { timeout_s * 10_000 } else { timeout_s * 1000 };
        let waited = t0.elapsed().as_millis() as u64;
        let mut left = limit_ms.saturating_sub(waited);
        if left == 0 && waited < limit_ms * 10 && cpu_ms().saturating_sub(cpu0) < limit_ms / 2 {
            // starved rather than spinning: keep waiting
            left = 1000;
        }
        if left == 0 {
            timed_out = true;
            break;
        }
        let mut pfd = libc::pollfd { fd: fds[0], events: libc::POLLIN, revents: 0 };
        let r = unsafe { libc::poll(&mut pfd, 1, left.min(1000) as i32) };
        if r < 0 {
            continue;
        }
        if r == 0 {
            continue;
        }
        let n = unsafe { libc::read(fds[0], chunk.as_mut_ptr() as *mut libc::c_void, chunk.len()) };
        if n > 0 {
            buf.extend_from_slice(&chunk[..n as usize]);
        } else if n == 0 {
            break;
        } else {
            break;
        }
    }
    unsafe { libc::close(fds[0]) };
    if timed_out {
        unsafe { libc::kill(pid, libc::SIGKILL) };
    }
    let mut status = 0i32;
    unsafe { libc::waitpid(pid, &mut status, 0) };
    if timed_out {
        return Forked::Timeout;
    }
    if libc::WIFSIGNALED(status) {
        return Forked::Crashed(format!("killed by signal {}", libc::WTERMSIG(status)));
    }
    if libc::WIFEXITED(status) && libc::WEXITSTATUS(status) != 0 {
        return Forked::Crashed(format!("child exited with status {} (panic in the harness?)", libc::WEXITSTATUS(status)));
    }
    Forked::Data(buf)
}

/// Run `f` in a forked child and bring its (serialisable) result back; None if the child died
/// or did not finish in time.
pub fn isolated<T: serde::Serialize + serde::de::DeserializeOwned>(f: impl FnOnce() -> T) -> Option<T> {
    match fork_run(|| serde_json::to_vec(&f()).unwrap(), SPIN_LIMIT_S) {
        Forked::Data(d) => serde_json::from_slice(&d).ok(),
        _ => None,
    }
}

pub fn spin_violation(prop: &str, task: &str, steps: u64) -> Violation {
    Violation {
        property: prop.to_string(),
        class: "task_spins_without_io".into(),
        signature: format!("{}|task_spins_without_io", prop),
        detail: format!("task {} ran for more than {} s of wall-clock time after scheduler step {} without reaching any seam (no socket, poll, clock, lock, timer or sleep call): it is spinning inside the code under test", task, SPIN_LIMIT_S, steps),
    }
}

const POST_PHASE: u64 = u64::MAX;

fn mark_post_phase() {
    let slot = dsim::SPIN_SLOT.load(std::sync::atomic::Ordering::Relaxed);
    if !slot.is_null() {
        unsafe { std::ptr::copy_nonoverlapping(POST_PHASE.to_le_bytes().as_ptr(), slot.add(120), 8) };
    }
}

/// Run one execution in a forked child and return its summary.
pub fn run_isolated(prop: &Property, plan: &Plan, tape: TapeSpec, want_tape: bool, trace_max: usize) -> RunSummary {
    let slot = spin_slot();
    if !slot.is_null() {
        unsafe { std::ptr::write_bytes(slot, 0, 128) };
    }
    let res = fork_run(
        || {
            let t = match &tape {
                TapeSpec::Search(seed) => dsim::Tape::search(*seed),
                TapeSpec::Replay(cells) => dsim::Tape::replay(cells.clone()),
            };
            let r = run_one(prop, plan, t);
            serde_json::to_vec(&summarize(plan, &r, want_tape, trace_max)).unwrap()
        },
        SPIN_LIMIT_S,
    );
    match res {
        Forked::Data(d) => match serde_json::from_slice::<RunSummary>(&d) {
            Ok(s) => s,
            Err(e) => RunSummary { crashed: Some(format!("unreadable result from the execution ({} bytes): {}", d.len(), e)), scenario: plan.scenario.clone(), ..Default::default() },
        },
        Forked::Timeout => {
            let (task, steps) = if slot.is_null() {
                (String::new(), 0)
            } else {
                unsafe {
                    let n = (*slot as usize).min(119);
                    let name = String::from_utf8_lossy(std::slice::from_raw_parts(slot.add(1), n)).to_string();
                    let mut b = [0u8; 8];
                    std::ptr::copy_nonoverlapping(slot.add(120), b.as_mut_ptr(), 8);
                    (name, u64::from_le_bytes(b))
                }
            };
            if steps == POST_PHASE {
                return RunSummary { crashed: Some(format!("the harness's own evaluation of a finished execution took more than {} s", SPIN_LIMIT_S * 10)), scenario: plan.scenario.clone(), ..Default::default() };
            }
            let mut s = RunSummary { spun: true, spin_task: task.clone(), spin_steps: steps, scenario: plan.scenario.clone(), outcome: "Spinning".into(), ..Default::default() };
            s.co.violations.push(spin_violation(prop.id, &task, steps));
            s
        }
        Forked::Crashed(why) => RunSummary { crashed: Some(why), scenario: plan.scenario.clone(), ..Default::default() },
    }
}

fn absorb(agg: &mut Agg, plan: &Plan, idx: u64, r: &RunSummary) {
    agg.evaluations += 1;
    *agg.scenarios.entry(plan.scenario.clone()).or_insert(0) += 1;
    *agg.outcomes.entry(r.outcome.clone()).or_insert(0) += 1;
    if r.co.nontrivial {
        agg.nontrivial += 1;
        agg.fingerprints.insert(r.fingerprint);
    }
    if let Some((c, d)) = r.co.cases {
        agg.cases += c;
        agg.cases_distinct += d;
    }
    agg.sim_ns += r.now as u128;
    agg.steps += r.steps;
    agg.tape_cells += r.tape_len;
    for (k, v) in &r.fault_fired {
        *agg.faults_fired.entry(k.clone()).or_insert(0) += v;
    }
    for (k, v) in &r.fault_offered {
        *agg.faults_offered.entry(k.clone()).or_insert(0) += v;
    }
    for (k, v) in &r.world_probes {
        *agg.probes.entry(k.clone()).or_insert(0) += v;
    }
    for (k, v) in &r.co.probes {
        *agg.probes.entry(k.clone()).or_insert(0) += v;
    }
    for (k, v) in &r.co.counters {
        *agg.counters.entry(k.clone()).or_insert(0) += v;
    }
    if let Some(s) = &r.co.sample {
        if agg.samples.len() < 3 && (r.co.nontrivial || agg.evaluations > 50) {
            agg.samples.push(s.clone());
        }
    }
    if !r.co.violations.is_empty() {
        agg.violating_runs += 1;
    }
    if let Some(why) = &r.crashed {
        agg.crashed.push(format!("idx {} seed {}: {}", idx, plan.seed, why));
    }
    for v in &r.co.violations {
        let same = agg.found.iter().filter(|f| f.violation.signature == v.signature).count();
        if same < 3 && agg.found.len() < 60 {
            agg.found.push(Found { seed: plan.seed, idx, violation: v.clone() });
        }
    }
}

/// child process: run indices start, start+stride, ... below total
pub fn worker(id: &str, tier: Tier, base: u64, start: u64, stride: u64, total: u64, out_path: &str, deadline_s: f64) {
    let prop = scen::find(id).expect("unknown property");
    let mut agg = Agg::default();
    let t0 = Instant::now();
    let mut idx = start;
    while idx < total {
        if t0.elapsed().as_secs_f64() > deadline_s {
            break;
        }
        let seed = scen::run_seed(base, idx);
        let plan = (prop.gen)(seed, idx, tier);
        let r = run_isolated(&prop, &plan, TapeSpec::Search(plan.seed), false, 0);
        absorb(&mut agg, &plan, idx, &r);
        idx += stride;
    }
    agg.busy_s = t0.elapsed().as_secs_f64();
    std::fs::write(out_path, serde_json::to_vec(&agg).unwrap()).expect("write child result");
}

// ------------------------------------------------------------------------------------------
// known findings
// ------------------------------------------------------------------------------------------

#[derive(Serialize, Deserialize, Clone, Debug)]
pub struct KnownEntry {
    pub status: String,
    pub property: String,
    pub signature: String,
    pub what: String,
    #[serde(default)]
    pub commit: String,
}

#[derive(Serialize, Deserialize, Clone, Debug, Default)]
pub struct KnownFile {
    pub findings: Vec<KnownEntry>,
}

pub fn load_known() -> KnownFile {
    let p = verif_dir().join("known_findings.json");
    match std::fs::read(&p) {
        Ok(b) => serde_json::from_slice(&b).expect("known_findings.json does not parse"),
        Err(_) => KnownFile::default(),
    }
}

pub fn known_match<'a>(k: &'a KnownFile, v: &Violation) -> Option<&'a KnownEntry> {
    k.findings.iter().find(|e| e.status == "known" && e.property == v.property && e.signature == v.signature)
}

// ------------------------------------------------------------------------------------------
// trace rendering
// ------------------------------------------------------------------------------------------

pub fn render_trace(out: &exec::RunOut, max: usize) -> Vec<String> {
    let w = &out.world;
    let mut lines = Vec::new();
    for r in &w.history {
        let who = r.task.map(|t| format!("{}/{}", w.procs[w.tasks[t].proc].name, w.tasks[t].name)).unwrap_or_else(|| "-".to_string());
        let what = match &r.ev {
            dsim::Ev::UdpSend { src, dst, dgram, data, ok, err, .. } => format!("send #{} {}->{} {}B {}", dgram, src, dst, data.len(), if *ok { "ok".to_string() } else { format!("ERR {}", err) }),
            dsim::Ev::UdpRecv { src, dgram, data, .. } => format!("recv #{} from {} {}B", dgram, src, data.len()),
            dsim::Ev::UdpRecvEmpty { .. } => continue,
            dsim::Ev::Deliver { dgram, sock, phantom } => format!("deliver #{} -> sock {}{}", dgram, sock, if *phantom { " (phantom)" } else { "" }),
            dsim::Ev::Entropy { .. } | dsim::Ev::MutexLock { .. } | dsim::Ev::MutexUnlock { .. } | dsim::Ev::TimerNew { .. } => continue,
            dsim::Ev::PollRet { tokens, spurious, .. } => {
                if tokens.is_empty() && !*spurious {
                    continue;
                }
                format!("poll -> {:?}{}", tokens, if *spurious { " (spurious)" } else { "" })
            }
            other => {
                let s = format!("{:?}", other);
                if s.len() > 220 {
                    format!("{}...", &s[..220])
                } else {
                    s
                }
            }
        };
        lines.push(format!("[{:>6} {:>12.6}s {}] {}", r.seq, r.t as f64 / 1e9, who, what));
    }
    if lines.len() > max {
        let tail = lines.split_off(lines.len() - max / 2);
        lines.truncate(max / 2);
        lines.push("...".to_string());
        lines.extend(tail);
    }
    lines
}

// ------------------------------------------------------------------------------------------
// minimisation
// ------------------------------------------------------------------------------------------

fn reproduces(prop: &Property, plan: &Plan, tape: &[u32], signature: &str) -> Option<RunSummary> {
    reproduces_full(prop, plan, tape, signature, false, 0)
}

fn reproduces_full(prop: &Property, plan: &Plan, tape: &[u32], signature: &str, want_tape: bool, trace_max: usize) -> Option<RunSummary> {
    let r = run_isolated(prop, plan, TapeSpec::Replay(tape.to_vec()), want_tape, trace_max);
    if r.co.violations.iter().any(|v| v.signature == signature) {
        Some(r)
    } else {
        None
    }
}

/// Shrink (plan, tape) while the same violation signature recurs. Bounded by `budget_s`.
pub fn minimise(prop: &Property, plan: &Plan, tape: &[u32], signature: &str, budget_s: f64) -> (Plan, Vec<u32>) {
    let t0 = Instant::now();
    let mut plan = plan.clone();
    let mut tape = tape.to_vec();
    let over = |t0: &Instant| t0.elapsed().as_secs_f64() > budget_s;

    // 1. tape: all zeros, then drop suffix
    if reproduces(prop, &plan, &[], signature).is_some() {
        tape.clear();
    }
    // 2. fault-free world
    {
        let mut p2 = plan.clone();
        p2.world.faults = FaultsSpec::default();
        if p2 != plan && reproduces(prop, &p2, &tape, signature).is_some() {
            plan = p2;
        }
    }
    for _round in 0..3 {
        let before = plan.clone();
        // 3. steps: delta debugging
        let mut chunk = (plan.steps.len() / 2).max(1);
        while chunk >= 1 && !over(&t0) {
            let mut i = 0;
            let mut progressed = false;
            while i < plan.steps.len() && !over(&t0) {
                let mut p2 = plan.clone();
                let end = (i + chunk).min(p2.steps.len());
                p2.steps.drain(i..end);
                if reproduces(prop, &p2, &tape, signature).is_some() {
                    plan = p2;
                    progressed = true;
                } else {
                    i += chunk;
                }
            }
            if chunk == 1 && !progressed {
                break;
            }
            chunk = if chunk == 1 { if progressed { 1 } else { 0 } } else { chunk / 2 };
            if chunk == 0 {
                break;
            }
        }
        // 4. simpler machine
        for f in [
            (|p: &mut Plan| p.world.strategy = StrategySpec::Uniform) as fn(&mut Plan),
            |p: &mut Plan| p.world.cost_scale = 1000,
            |p: &mut Plan| p.world.flow_hash = Some(0),
            |p: &mut Plan| p.world.latency_jitter_us = 0,
            |p: &mut Plan| {
                if let Some(s) = p.server.as_mut() {
                    if s.workers > 1 {
                        s.workers = 1
                    }
                }
            },
            |p: &mut Plan| {
                if let Some(s) = p.server.as_mut() {
                    s.log_level = Some(0)
                }
            },
        ] {
            if over(&t0) {
                break;
            }
            let mut p2 = plan.clone();
            f(&mut p2);
            if p2 != plan && reproduces(prop, &p2, &tape, signature).is_some() {
                plan = p2;
            }
        }
        if plan == before {
            break;
        }
    }
    // 5. tape cells: truncate, then zero blocks
    if !tape.is_empty() {
        let mut n = tape.len() / 2;
        while n > 0 && !over(&t0) {
            let t2 = tape[..tape.len() - n].to_vec();
            if reproduces(prop, &plan, &t2, signature).is_some() {
                tape = t2;
            }
            n /= 2;
        }
        let mut block = (tape.len() / 4).max(1);
        while block >= 1 && !over(&t0) {
            let mut i = 0;
            while i < tape.len() && !over(&t0) {
                let end = (i + block).min(tape.len());
                if tape[i..end].iter().any(|c| *c != 0) {
                    let mut t2 = tape.clone();
                    for c in &mut t2[i..end] {
                        *c = 0;
                    }
                    if reproduces(prop, &plan, &t2, signature).is_some() {
                        tape = t2;
                    }
                }
                i += block;
            }
            if block == 1 {
                break;
            }
            block /= 2;
        }
    }
    (plan, tape)
}

pub fn repo_tree() -> String {
    let head = std::process::Command::new("git").args(["-C", "/repo", "rev-parse", "--short", "HEAD"]).output().ok().map(|o| String::from_utf8_lossy(&o.stdout).trim().to_string()).unwrap_or_default();
    let dirty = std::process::Command::new("git").args(["-C", "/repo", "status", "--porcelain", "--untracked-files=no"]).output().ok().map(|o| !o.stdout.is_empty()).unwrap_or(false);
    format!("{}{}", head, if dirty { "+dirty" } else { "" })
}

pub fn write_replay(prop: &Property, plan: &Plan, tape: &[u32], v: &Violation) -> Option<PathBuf> {
    // final run: recorded tape, digest, trace
    let r = reproduces_full(prop, plan, tape, &v.signature, true, 400)?;
    let viol = r.co.violations.iter().find(|x| x.signature == v.signature).cloned().unwrap();
    let digest = if r.spun { "spinning".to_string() } else { format!("{:016x}", r.hist_hash) };
    let rep = Replay {
        property: prop.id.to_string(),
        seed: plan.seed,
        plan: plan.clone(),
        tape: if r.spun { tape.to_vec() } else { r.tape.clone() },
        violation: viol,
        history_digest: digest.clone(),
        events: r.trace.clone(),
        repo_tree: repo_tree(),
    };
    let dir = verif_dir().join("replays");
    std::fs::create_dir_all(&dir).ok()?;
    let path = dir.join(format!("{}-{}-{}.json", prop.id, plan.seed, &digest[..8.min(digest.len())]));
    std::fs::write(&path, serde_json::to_vec_pretty(&rep).unwrap()).ok()?;
    Some(path)
}

/// `simcheck replay <file>`: re-execute plan + tape without any PRNG.
/// exit 1 + VIOLATION line when the recorded violation recurs with the recorded digest;
/// exit 0 when it does not recur (e.g. the tree was repaired); exit 2 when it recurs with a
/// different history (harness error).
pub fn replay_file(path: &str) -> i32 {
    let rep: Replay = match std::fs::read(path).ok().and_then(|b| serde_json::from_slice(&b).ok()) {
        Some(r) => r,
        None => {
            eprintln!("cannot read replay file {}", path);
            return 2;
        }
    };
    let prop = match scen::find(&rep.property) {
        Some(p) => p,
        None => {
            eprintln!("unknown property {}", rep.property);
            return 2;
        }
    };
    let trace_max: usize = std::env::var("VERIF_TRACE_MAX").ok().and_then(|s| s.parse().ok()).unwrap_or(80);
    let r = run_isolated(&prop, &rep.plan, TapeSpec::Replay(rep.tape.clone()), false, trace_max);
    if let Some(why) = &r.crashed {
        eprintln!("HARNESS ERROR: the execution died: {}", why);
        return 2;
    }
    let digest = if r.spun { "spinning".to_string() } else { format!("{:016x}", r.hist_hash) };
    for l in &r.trace {
        println!("{}", l);
    }
    match r.co.violations.iter().find(|v| v.signature == rep.violation.signature) {
        Some(v) => {
            println!("reproduced: {} — {}", v.signature, v.detail);
            println!("history digest {} (recorded {})", digest, rep.history_digest);
            println!("VIOLATION property={} replay={}", rep.property, path);
            if digest != rep.history_digest && rep.repo_tree == repo_tree() {
                eprintln!("HARNESS ERROR: same tree, different history digest");
                return 2;
            }
            1
        }
        None => {
            println!("not reproduced on this tree (recorded on {}, now {}); other violations: {:?}", rep.repo_tree, repo_tree(), r.co.violations.iter().map(|v| &v.signature).collect::<Vec<_>>());
            0
        }
    }
}

// ------------------------------------------------------------------------------------------
// the check command
// ------------------------------------------------------------------------------------------

pub fn check(id: &str, tier: Tier) -> i32 {
    let prop = match scen::find(id) {
        Some(p) => p,
        None => {
            eprintln!("unknown property {}", id);
            return 2;
        }
    };
    let t0 = Instant::now();
    let base = base_seed();
    println!("VERIF_SEED={} property={} tier={:?}", base, id, tier);
    // VERIF_SCALE multiplies the run budget (developer sweeps); registered commands leave it unset
    let scale: u64 = std::env::var("VERIF_SCALE").ok().and_then(|s| s.parse().ok()).unwrap_or(1).max(1);
    let total = (prop.budget)(tier) * scale;
    let n = jobs().max(1) as u64;
    let exe = std::env::current_exe().expect("current exe");
    let tmp = verif_dir().join("sim/target/run");
    let _ = std::fs::create_dir_all(&tmp);
    let deadline_s: f64 = std::env::var("VERIF_DEADLINE_S").ok().and_then(|s| s.parse().ok()).unwrap_or(match tier {
        Tier::Quick => 150.0,
        Tier::Thorough => 2400.0,
    });
    let mut kids = Vec::new();
    for k in 0..n.min(total.max(1)) {
        let out = tmp.join(format!("{}-{}-{}.json", id, std::process::id(), k));
        let child = std::process::Command::new(&exe)
            .args(["worker", id, if tier == Tier::Quick { "quick" } else { "thorough" }, &base.to_string(), &k.to_string(), &n.to_string(), &total.to_string(), out.to_str().unwrap(), &deadline_s.to_string()])
            .env("TZ", "UTC")
            .spawn()
            .expect("spawn worker");
        kids.push((child, out));
    }
    let mut agg = Agg::default();
    let mut harness_error = false;
    for (mut c, out) in kids {
        let st = c.wait().expect("wait");
        if !st.success() {
            eprintln!("HARNESS ERROR: worker exited with {:?}", st);
            harness_error = true;
        }
        match std::fs::read(&out).ok().and_then(|b| serde_json::from_slice::<Agg>(&b).ok()) {
            Some(a) => agg.merge(a),
            None => harness_error = true,
        }
        let _ = std::fs::remove_file(&out);
    }
    for c in &agg.crashed {
        eprintln!("HARNESS ERROR: {}", c);
        harness_error = true;
    }
    if harness_error {
        return 2;
    }

    // aggregate oracles
    let mut agg_violations = (prop.finalize)(&agg.counters, tier);

    // group per-run violations by signature, deterministic order
    agg.found.sort_by_key(|f| (f.violation.signature.clone(), f.idx));
    let known = load_known();
    let mut sigs: Vec<String> = agg.found.iter().map(|f| f.violation.signature.clone()).collect();
    sigs.dedup();
    let mut exit = 0;
    let mut known_met: Vec<String> = Vec::new();
    let mut new_viol = 0;
    let mut minimised = 0;
    for sig in &sigs {
        let f = agg.found.iter().find(|f| &f.violation.signature == sig).unwrap();
        if let Some(k) = known_match(&known, &f.violation) {
            println!("KNOWN-FINDING: property={} {} [{}]", k.property, k.what, k.signature);
            known_met.push(k.signature.clone());
            continue;
        }
        new_viol += 1;
        exit = 1;
        let do_minimise = minimised < 5;
        minimised += 1;
        // regenerate, re-run in search mode to obtain the tape, minimise, write the replay file
        let plan = (prop.gen)(scen::run_seed(base, f.idx), f.idx, tier);
        let first = run_isolated(&prop, &plan, TapeSpec::Search(plan.seed), true, 0);
        let tape = first.tape.clone();
        if !first.co.violations.iter().any(|v| &v.signature == sig) {
            eprintln!("HARNESS ERROR: violation {} of seed {} did not recur in the parent process", sig, f.seed);
            return 2;
        }
        // at most five violations are minimised per check; the others are reported with the
        // plan and tape as found
        // (a spinning execution costs SPIN_LIMIT_S per candidate: it is reported as found)
        let (mp, mt) = if do_minimise && !first.spun { minimise(&prop, &plan, &tape, sig, 20.0) } else { (plan.clone(), tape.clone()) };
        match write_replay(&prop, &mp, &mt, &f.violation) {
            Some(path) => {
                // replay the minimised file in a fresh process; it must fail the same way
                let st = std::process::Command::new(&exe).args(["replay", path.to_str().unwrap()]).env("TZ", "UTC").stdout(std::process::Stdio::null()).status();
                let code = st.ok().and_then(|s| s.code()).unwrap_or(2);
                if code != 1 {
                    eprintln!("HARNESS ERROR: replay of {} in a fresh process exited {}", path.display(), code);
                    return 2;
                }
                println!("  {} — {}", sig, f.violation.detail);
                println!("  minimised to {} steps, {} tape cells (from {} steps, {} cells)", mp.steps.len(), mt.len(), plan.steps.len(), tape.len());
                println!("VIOLATION property={} replay={}", f.violation.property, path.display());
            }
            None => {
                eprintln!("HARNESS ERROR: could not write replay for {}", sig);
                return 2;
            }
        }
    }
    for v in agg_violations.drain(..) {
        if let Some(k) = known_match(&known, &v) {
            println!("KNOWN-FINDING: property={} {} [{}]", k.property, k.what, k.signature);
            known_met.push(k.signature.clone());
            continue;
        }
        new_viol += 1;
        exit = 1;
        let dir = verif_dir().join("replays");
        let _ = std::fs::create_dir_all(&dir);
        let path = dir.join(format!("{}-aggregate-{}.json", id, base));
        let _ = std::fs::write(&path, serde_json::to_vec_pretty(&serde_json::json!({"property": id, "aggregate": true, "base_seed": base, "tier": format!("{:?}", tier), "violation": v, "counters": agg.counters, "how_to_replay": format!("VERIF_SEED={} ./check {} {}", base, id, if tier == Tier::Quick { "quick" } else { "thorough" })})).unwrap());
        println!("  {} — {}", v.signature, v.detail);
        println!("VIOLATION property={} replay={}", id, path.display());
    }

    let wall = t0.elapsed().as_secs_f64();
    write_evidence(&prop, tier, base, &agg, wall, new_viol, &known_met);
    println!(
        "{} {:?}: {} runs ({} non-trivial, {} distinct schedule fingerprints), {:.1} simulated s, {:.1}s wall, {} violating runs, {} new violation signature(s), {} known",
        id,
        tier,
        agg.evaluations,
        agg.nontrivial,
        agg.fingerprints.len(),
        agg.sim_ns as f64 / 1e9,
        wall,
        agg.violating_runs,
        new_viol,
        known_met.len()
    );
    if agg.evaluations == 0 {
        eprintln!("HARNESS ERROR: no runs executed");
        return 2;
    }
    exit
}

fn write_evidence(prop: &Property, tier: Tier, base: u64, agg: &Agg, wall: f64, violations: u64, known_met: &[String]) {
    let per_hour = if wall > 0.0 { agg.evaluations as f64 / wall * 3600.0 } else { 0.0 };
    let ev = serde_json::json!({
        "property_id": prop.id,
        "tier": if tier == Tier::Quick { "quick" } else { "thorough" },
        "seed": base,
        "level": prop.level,
        "coverage": {
            "evaluations": if agg.cases > 0 { agg.cases } else { agg.evaluations },
            "distinct_nontrivial": if agg.cases > 0 { agg.cases_distinct } else { agg.fingerprints.len() as u64 },
            "simulated_executions": agg.evaluations,
            "rule": prop.rule,
            "samples": agg.samples,
            "nontrivial_runs": agg.nontrivial,
            "runs_per_hour": per_hour.round(),
            "seeds_per_hour": per_hour.round(),
            "simulated_seconds": agg.sim_ns as f64 / 1e9,
            "scheduler_steps": agg.steps,
            "tape_cells": agg.tape_cells,
            "runs_per_scenario": agg.scenarios,
            "run_outcomes": agg.outcomes,
            "fault_kinds_fired": agg.faults_fired,
            "fault_kinds_offered": agg.faults_offered,
            "reach_probes": agg.probes,
            "counters": agg.counters,
            "violating_runs": agg.violating_runs,
            "known_findings_met": known_met,
            "components_real": prop.real,
            "components_stub": prop.stub,
            "repo_tree": repo_tree(),
            "exhaustive": false,
        },
        "assumptions": prop.assumptions,
        "wall_s": wall,
        "violations": violations,
    });
    let dir = verif_dir().join("evidence");
    let _ = std::fs::create_dir_all(&dir);
    let _ = std::fs::write(dir.join(format!("{}.json", prop.id)), serde_json::to_vec_pretty(&ev).unwrap());
}

/// Determinism self-check: every seed twice in this process; digests must agree. Returns the list
/// of (idx, digest) so that separate processes can be compared by the caller.
pub fn determinism(id: &str, tier: Tier, start: u64, count: u64) -> (bool, Vec<(u64, String)>) {
    let prop = scen::find(id).expect("unknown property");
    let base = base_seed();
    let mut ok = true;
    let mut digests = Vec::new();
    for idx in start..start + count {
        let seed = scen::run_seed(base, idx);
        let plan = (prop.gen)(seed, idx, tier);
        let a = run_isolated(&prop, &plan, TapeSpec::Search(plan.seed), true, 0);
        // b: a second forked execution; c: replay from a's tape; d: the same execution in *this*
        // process, after whatever ran here before (fork isolation must make no difference)
        let b = run_isolated(&prop, &plan, TapeSpec::Search(plan.seed), false, 0);
        let c = run_isolated(&prop, &plan, TapeSpec::Replay(a.tape.clone()), false, 0);
        let (da, db, dc) = (a.hist_hash, b.hist_hash, c.hist_hash);
        let va: Vec<_> = a.co.violations.iter().map(|v| v.signature.clone()).collect();
        let vb: Vec<_> = b.co.violations.iter().map(|v| v.signature.clone()).collect();
        let vc: Vec<_> = c.co.violations.iter().map(|v| v.signature.clone()).collect();
        if da != db || da != dc || va != vb || va != vc {
            ok = false;
            println!("NONDETERMINISM property={} idx={} seed={} digests {:016x} {:016x} replay {:016x} violations {:?} {:?} {:?}", id, idx, seed, da, db, dc, va, vb, vc);
        }
        digests.push((idx, format!("{:016x}:{}", da, va.join(","))));
    }
    (ok, digests)
}
