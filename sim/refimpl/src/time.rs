//! Independent civil-time formatting (proleptic Gregorian, UTC) for the client-output oracle.

/// days since 1970-01-01 -> (year, month 1..=12, day 1..=31); Howard Hinnant's algorithm.
pub fn civil_from_days(z: i64) -> (i64, u32, u32) {
    let z = z + 719_468;
    let era = if z >= 0 { z } else { z - 146_096 } / 146_097;
    let doe = (z - era * 146_097) as u64;
    let yoe = (doe - doe / 1460 + doe / 36_524 - doe / 146_096) / 365;
    let y = yoe as i64 + era * 400;
    let doy = doe - (365 * yoe + yoe / 4 - yoe / 100);
    let mp = (5 * doy + 2) / 153;
    let d = (doy - (153 * mp + 2) / 5 + 1) as u32;
    let m = if mp < 10 { mp + 3 } else { mp - 9 } as u32;
    (if m <= 2 { y + 1 } else { y }, m, d)
}

const MONTHS: [&str; 12] = ["Jan", "Feb", "Mar", "Apr", "May", "Jun", "Jul", "Aug", "Sep", "Oct", "Nov", "Dec"];

/// Format seconds+nanos since the epoch in UTC. Supports %Y %m %d %H %M %S %b %Z %f and literals.
pub fn format_utc(secs: u64, nanos: u32, fmt: &str) -> String {
    format_at(secs, nanos, fmt, 0, "UTC")
}

/// The same instant on a clock `off_secs` east of UTC whose `%Z` reads `zone`.
pub fn format_at(secs: u64, nanos: u32, fmt: &str, off_secs: i64, zone: &str) -> String {
    let shifted = secs as i64 + off_secs;
    let days = shifted.div_euclid(86_400);
    let rem = shifted.rem_euclid(86_400);
    let (y, mo, d) = civil_from_days(days);
    let (hh, mm, ss) = (rem / 3600, rem % 3600 / 60, rem % 60);
    let mut out = String::new();
    let mut it = fmt.chars();
    while let Some(c) = it.next() {
        if c != '%' {
            out.push(c);
            continue;
        }
        match it.next() {
            // (chrono writes years beyond 9999 with a sign)
            Some('Y') => out.push_str(&if y > 9999 { format!("+{}", y) } else { format!("{}", y) }),
            Some('m') => out.push_str(&format!("{:02}", mo)),
            Some('d') => out.push_str(&format!("{:02}", d)),
            Some('H') => out.push_str(&format!("{:02}", hh)),
            Some('M') => out.push_str(&format!("{:02}", mm)),
            Some('S') => out.push_str(&format!("{:02}", ss)),
            Some('b') => out.push_str(MONTHS[(mo - 1) as usize]),
            Some('Z') => out.push_str(zone),
            Some('f') => out.push_str(&format!("{:09}", nanos)),
            Some('s') => out.push_str(&format!("{}", secs)),
            // %3f %6f %9f: that many digits, truncated; %.3f %.6f %.9f: the same after a dot
            Some(n @ ('3' | '6' | '9')) if it.clone().next() == Some('f') => {
                it.next();
                out.push_str(&format!("{:09}", nanos)[..n.to_digit(10).unwrap() as usize]);
            }
            Some('.') if matches!(it.clone().next(), Some('3' | '6' | '9')) && it.clone().nth(1) == Some('f') => {
                let n = it.next().unwrap().to_digit(10).unwrap() as usize;
                it.next();
                out.push('.');
                out.push_str(&format!("{:09}", nanos)[..n]);
            }
            Some('%') => out.push('%'),
            Some(o) => {
                out.push('%');
                out.push(o);
            }
            None => out.push('%'),
        }
    }
    out
}

#[cfg(test)]
mod tests {
    use super::*;
    #[test]
    fn known_dates() {
        assert_eq!(format_utc(0, 0, "%b %d %Y %H:%M:%S %Z"), "Jan 01 1970 00:00:00 UTC");
        assert_eq!(format_utc(1_700_000_000, 5, "%Y-%m-%d %H:%M:%S.%f"), "2023-11-14 22:13:20.000000005");
        assert_eq!(format_utc(253_402_300_799, 0, "%Y-%m-%d %H:%M:%S"), "9999-12-31 23:59:59");
        assert_eq!(format_utc(951_782_400, 0, "%b %d %Y"), "Feb 29 2000");
    }
}
