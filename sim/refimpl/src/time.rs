//! Independent civil-time formatting (proleptic Gregorian, UTC) for the client-output oracle.

/// days since 1970-01-01 -> (year, month 1..=12, day 1..=31); Howard Hinnant's algorithm.
pub fn civil_from_days(z: i64) -> (i64, u32, u32) {
    let z = z + 719_468;
    let era = if z >= 0 { z } else { z - 146_096 } / 146_097;
    let doe = (z - era * 146_097) as u64;
    let yoe = (doe - doe / 1460 + doe / 36_524 - doe / 146_096) / 365;
    let y = yoe as i64 + era * 400;
    let doy = doe - (365 * yoe + yoe / 4 - yoe / 100);
    let mp = (5 * doy + 2) / 153;
    let d = (doy - (153 * mp + 2) / 5 + 1) as u32;
    let m = if mp < 10 { mp + 3 } else { mp - 9 } as u32;
    (if m <= 2 { y + 1 } else { y }, m, d)
}

/// (year, month 1..=12, day 1..=31) -> days since 1970-01-01 (the inverse of `civil_from_days`).
pub fn days_from_civil(y: i64, m: u32, d: u32) -> i64 {
    let y = if m <= 2 { y - 1 } else { y };
    let era = if y >= 0 { y } else { y - 399 } / 400;
    let yoe = (y - era * 400) as i64;
    let mp = (m as i64 + 9) % 12;
    let doy = (153 * mp + 2) / 5 + d as i64 - 1;
    let doe = yoe * 365 + yoe / 4 - yoe / 100 + doy;
    era * 146_097 + doe - 719_468
}

/// A time zone given as a POSIX TZ string: standard offset, and optionally a daylight-saving
/// offset with the two `Mm.w.d/time` rules (month, week 1..=5 where 5 = last, weekday 0 = Sunday,
/// local time of day in seconds). Offsets are seconds east of UTC.
#[derive(Clone, Copy, Debug, PartialEq)]
pub struct Zone {
    pub tz: &'static str,
    pub std_off: i64,
    pub dst: Option<(i64, (u32, u32, u32, i64), (u32, u32, u32, i64))>,
}

pub const ZONES: [Zone; 10] = [
    Zone { tz: "UTC", std_off: 0, dst: None },
    Zone { tz: "JST-9", std_off: 32_400, dst: None },
    Zone { tz: "IST-5:30", std_off: 19_800, dst: None },
    Zone { tz: "EST5", std_off: -18_000, dst: None },
    Zone { tz: "NST3:30", std_off: -12_600, dst: None },
    Zone { tz: "<+14>-14", std_off: 50_400, dst: None },
    Zone { tz: "<-12>12", std_off: -43_200, dst: None },
    Zone { tz: "CET-1CEST,M3.5.0,M10.5.0/3", std_off: 3_600, dst: Some((7_200, (3, 5, 0, 7_200), (10, 5, 0, 10_800))) },
    Zone { tz: "EST5EDT,M3.2.0,M11.1.0", std_off: -18_000, dst: Some((-14_400, (3, 2, 0, 7_200), (11, 1, 0, 7_200))) },
    Zone { tz: "AEST-10AEDT,M10.1.0,M4.1.0/3", std_off: 36_000, dst: Some((39_600, (10, 1, 0, 7_200), (4, 1, 0, 10_800))) },
];

/// Local wall-clock second count (as if UTC) at which rule `(m, w, d, time)` falls in year `y`.
fn rule_local_secs(y: i64, rule: (u32, u32, u32, i64)) -> i64 {
    let (m, w, d, time) = rule;
    let first = days_from_civil(y, m, 1);
    // weekday of the first of the month: 1970-01-01 was a Thursday (4)
    let wd_first = (first + 4).rem_euclid(7) as u32;
    let mut day = 1 + (d + 7 - wd_first) % 7 + (w - 1) * 7;
    let dim = (days_from_civil(if m == 12 { y + 1 } else { y }, if m == 12 { 1 } else { m + 1 }, 1) - first) as u32;
    while day > dim {
        day -= 7;
    }
    (first + day as i64 - 1) * 86_400 + time
}

impl Zone {
    pub fn by_tz(tz: Option<&str>) -> Zone {
        ZONES.iter().copied().find(|z| Some(z.tz) == tz).unwrap_or(ZONES[0])
    }
    /// Seconds east of UTC in force at the instant `utc_secs`.
    pub fn offset_at(&self, utc_secs: i64) -> i64 {
        let Some((dst_off, start, end)) = self.dst else { return self.std_off };
        let (y, _, _) = civil_from_days((utc_secs + self.std_off).div_euclid(86_400));
        // the change to daylight time is given in standard time, the change back in daylight time
        let start_utc = rule_local_secs(y, start) - self.std_off;
        let end_utc = rule_local_secs(y, end) - dst_off;
        let in_dst = if start_utc < end_utc { utc_secs >= start_utc && utc_secs < end_utc } else { utc_secs >= start_utc || utc_secs < end_utc };
        if in_dst {
            dst_off
        } else {
            self.std_off
        }
    }
    /// The UTC instants of the two changes in year `y` (to daylight time, back to standard time).
    pub fn changes(&self, y: i64) -> Option<(i64, i64)> {
        let (dst_off, start, end) = self.dst?;
        Some((rule_local_secs(y, start) - self.std_off, rule_local_secs(y, end) - dst_off))
    }
}

const MONTHS: [&str; 12] = ["Jan", "Feb", "Mar", "Apr", "May", "Jun", "Jul", "Aug", "Sep", "Oct", "Nov", "Dec"];

/// Format seconds+nanos since the epoch in UTC. Supports %Y %m %d %H %M %S %b %Z %f and literals.
pub fn format_utc(secs: u64, nanos: u32, fmt: &str) -> String {
    format_at(secs, nanos, fmt, 0, "UTC")
}

/// The same instant on a clock `off_secs` east of UTC whose `%Z` reads `zone`.
pub fn format_at(secs: u64, nanos: u32, fmt: &str, off_secs: i64, zone: &str) -> String {
    let shifted = secs as i64 + off_secs;
    let days = shifted.div_euclid(86_400);
    let rem = shifted.rem_euclid(86_400);
    let (y, mo, d) = civil_from_days(days);
    let (hh, mm, ss) = (rem / 3600, rem % 3600 / 60, rem % 60);
    let mut out = String::new();
    let mut it = fmt.chars();
    while let Some(c) = it.next() {
        if c != '%' {
            out.push(c);
            continue;
        }
        match it.next() {
            // (chrono writes years beyond 9999 with a sign)
            Some('Y') => out.push_str(&if y > 9999 { format!("+{}", y) } else { format!("{}", y) }),
            Some('m') => out.push_str(&format!("{:02}", mo)),
            Some('d') => out.push_str(&format!("{:02}", d)),
            Some('H') => out.push_str(&format!("{:02}", hh)),
            Some('M') => out.push_str(&format!("{:02}", mm)),
            Some('S') => out.push_str(&format!("{:02}", ss)),
            Some('b') => out.push_str(MONTHS[(mo - 1) as usize]),
            Some('Z') => out.push_str(zone),
            Some('f') => out.push_str(&format!("{:09}", nanos)),
            Some('s') => out.push_str(&format!("{}", secs)),
            // %3f %6f %9f: that many digits, truncated; %.3f %.6f %.9f: the same after a dot
            Some(n @ ('3' | '6' | '9')) if it.clone().next() == Some('f') => {
                it.next();
                out.push_str(&format!("{:09}", nanos)[..n.to_digit(10).unwrap() as usize]);
            }
            Some('.') if matches!(it.clone().next(), Some('3' | '6' | '9')) && it.clone().nth(1) == Some('f') => {
                let n = it.next().unwrap().to_digit(10).unwrap() as usize;
                it.next();
                out.push('.');
                out.push_str(&format!("{:09}", nanos)[..n]);
            }
            Some('%') => out.push('%'),
            Some(o) => {
                out.push('%');
                out.push(o);
            }
            None => out.push('%'),
        }
    }
    out
}

#[cfg(test)]
mod tests {
    use super::*;
    #[test]
    fn known_dates() {
        assert_eq!(format_utc(0, 0, "%b %d %Y %H:%M:%S %Z"), "Jan 01 1970 00:00:00 UTC");
        assert_eq!(format_utc(1_700_000_000, 5, "%Y-%m-%d %H:%M:%S.%f"), "2023-11-14 22:13:20.000000005");
        assert_eq!(format_utc(253_402_300_799, 0, "%Y-%m-%d %H:%M:%S"), "9999-12-31 23:59:59");
        assert_eq!(format_utc(951_782_400, 0, "%b %d %Y"), "Feb 29 2000");
    }
}
