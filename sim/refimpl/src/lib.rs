//! Independent reference implementation of the two Roughtime protocols (Google classic and IETF
//! draft-13), written from the protocol descriptions. It shares no code with /repo/src: hashing
//! is `sha2`, Ed25519 is `ring::signature` (the repository uses ring::digest and ed25519-dalek).
//! This is the oracle for the simulation checks.

use sha2::{Digest, Sha512};

pub mod time;

// ---------------------------------------------------------------------------------------------
// protocol constants
// ---------------------------------------------------------------------------------------------

pub const fn tag(b: &[u8; 4]) -> u32 {
    u32::from_le_bytes(*b)
}

pub const SIG: u32 = tag(b"SIG\0");
pub const VER: u32 = tag(b"VER\0");
pub const SRV: u32 = tag(b"SRV\0");
pub const NONC: u32 = tag(b"NONC");
pub const DELE: u32 = tag(b"DELE");
pub const PATH: u32 = tag(b"PATH");
pub const RADI: u32 = tag(b"RADI");
pub const PUBK: u32 = tag(b"PUBK");
pub const MIDP: u32 = tag(b"MIDP");
pub const SREP: u32 = tag(b"SREP");
pub const VERS: u32 = tag(b"VERS");
pub const MINT: u32 = tag(b"MINT");
pub const ROOT: u32 = tag(b"ROOT");
pub const CERT: u32 = tag(b"CERT");
pub const MAXT: u32 = tag(b"MAXT");
pub const INDX: u32 = tag(b"INDX");
pub const ZZZZ: u32 = tag(b"ZZZZ");
pub const PAD: u32 = tag(b"PAD\xff");

pub const KNOWN_TAGS: [u32; 18] = [SIG, VER, SRV, NONC, DELE, PATH, RADI, PUBK, MIDP, SREP, VERS, MINT, ROOT, CERT, MAXT, INDX, ZZZZ, PAD];

pub const MAGIC: &[u8; 8] = b"ROUGHTIM";
pub const VER_DRAFT13: u32 = 0x8000_000c;
pub const VER_CLASSIC: u32 = 0;

#[derive(Clone, Copy, Debug, PartialEq, Eq, Hash, PartialOrd, Ord)]
pub enum Proto {
    Classic,
    Ietf,
}

impl Proto {
    pub fn dele_context(self) -> &'static [u8] {
        match self {
            Proto::Classic => b"RoughTime v1 delegation signature--\0",
            Proto::Ietf => b"RoughTime v1 delegation signature\0",
        }
    }
    pub fn srep_context(self) -> &'static [u8] {
        b"RoughTime v1 response signature\0"
    }
    pub fn hash_len(self) -> usize {
        match self {
            Proto::Classic => 64,
            Proto::Ietf => 32,
        }
    }
    pub fn nonce_len(self) -> usize {
        match self {
            Proto::Classic => 64,
            Proto::Ietf => 32,
        }
    }
    pub fn radius_5s(self) -> u32 {
        match self {
            Proto::Classic => 5_000_000,
            Proto::Ietf => 5,
        }
    }
    pub fn name(self) -> &'static str {
        match self {
            Proto::Classic => "classic",
            Proto::Ietf => "ietf",
        }
    }
}

// ---------------------------------------------------------------------------------------------
// tag-value codec
// ---------------------------------------------------------------------------------------------

#[derive(Clone, Debug, PartialEq, Eq)]
pub struct Msg {
    pub fields: Vec<(u32, Vec<u8>)>,
}

impl Msg {
    pub fn new() -> Msg {
        Msg { fields: Vec::new() }
    }
    pub fn get(&self, t: u32) -> Option<&[u8]> {
        self.fields.iter().find(|f| f.0 == t).map(|f| f.1.as_slice())
    }
    pub fn has(&self, t: u32) -> bool {
        self.get(t).is_some()
    }
    /// Insert keeping ascending numeric tag order.
    pub fn put(&mut self, t: u32, v: &[u8]) -> &mut Msg {
        self.fields.retain(|f| f.0 != t);
        let pos = self.fields.iter().position(|f| f.0 > t).unwrap_or(self.fields.len());
        self.fields.insert(pos, (t, v.to_vec()));
        self
    }
    pub fn encode(&self) -> Vec<u8> {
        let n = self.fields.len();
        let mut out = Vec::new();
        out.extend_from_slice(&(n as u32).to_le_bytes());
        let mut off = 0usize;
        for (i, f) in self.fields.iter().enumerate() {
            if i > 0 {
                out.extend_from_slice(&(off as u32).to_le_bytes());
            }
            off += f.1.len();
        }
        for f in &self.fields {
            out.extend_from_slice(&f.0.to_le_bytes());
        }
        for f in &self.fields {
            out.extend_from_slice(&f.1);
        }
        out
    }
    pub fn encode_framed(&self) -> Vec<u8> {
        frame(&self.encode())
    }
    /// Encode the fields in the order given, without sorting (for building malformed messages).
    pub fn encode_unsorted(fields: &[(u32, Vec<u8>)]) -> Vec<u8> {
        Msg { fields: fields.to_vec() }.encode()
    }
}

impl Default for Msg {
    fn default() -> Self {
        Msg::new()
    }
}

pub fn frame(payload: &[u8]) -> Vec<u8> {
    let mut out = Vec::with_capacity(12 + payload.len());
    out.extend_from_slice(MAGIC);
    out.extend_from_slice(&(payload.len() as u32).to_le_bytes());
    out.extend_from_slice(payload);
    out
}

#[derive(Clone, Debug, PartialEq, Eq)]
pub enum DecodeError {
    TooShort,
    Unaligned,
    TooManyTags,
    BadOffset,
    TagOrder,
    Truncated,
}

fn rd32(b: &[u8], at: usize) -> Option<u32> {
    b.get(at..at + 4).map(|s| u32::from_le_bytes([s[0], s[1], s[2], s[3]]))
}

/// Structural decoder: count, aligned monotone in-range offsets, strictly ascending tags.
/// `unknown` reports whether a tag outside the 18 known ones occurs (callers decide).
pub fn decode(b: &[u8]) -> Result<(Msg, bool), DecodeError> {
    if b.len() < 4 {
        return Err(DecodeError::TooShort);
    }
    if b.len() % 4 != 0 {
        return Err(DecodeError::Unaligned);
    }
    let n = rd32(b, 0).unwrap() as usize;
    if n == 0 {
        return Ok((Msg::new(), false));
    }
    if n > 1024 {
        return Err(DecodeError::TooManyTags);
    }
    let header = 4 + 4 * (n - 1) + 4 * n;
    if b.len() < header {
        return Err(DecodeError::Truncated);
    }
    let vals = b.len() - header;
    let mut offs = vec![0usize];
    for i in 0..n - 1 {
        let o = rd32(b, 4 + 4 * i).unwrap() as usize;
        if o % 4 != 0 || o > vals || o < *offs.last().unwrap() {
            return Err(DecodeError::BadOffset);
        }
        offs.push(o);
    }
    offs.push(vals);
    let mut m = Msg::new();
    let mut unknown = false;
    let mut last: Option<u32> = None;
    for i in 0..n {
        let t = rd32(b, 4 + 4 * (n - 1) + 4 * i).unwrap();
        if let Some(l) = last {
            if t <= l {
                return Err(DecodeError::TagOrder);
            }
        }
        last = Some(t);
        if !KNOWN_TAGS.contains(&t) {
            unknown = true;
        }
        m.fields.push((t, b[header + offs[i]..header + offs[i + 1]].to_vec()));
    }
    Ok((m, unknown))
}

// ---------------------------------------------------------------------------------------------
// hashing, Merkle, SRV
// ---------------------------------------------------------------------------------------------

pub fn sha512(parts: &[&[u8]]) -> [u8; 64] {
    let mut h = Sha512::new();
    for p in parts {
        h.update(p);
    }
    h.finalize().into()
}

fn h(proto: Proto, parts: &[&[u8]]) -> Vec<u8> {
    sha512(parts)[..proto.hash_len()].to_vec()
}

pub fn leaf_hash(proto: Proto, leaf: &[u8]) -> Vec<u8> {
    h(proto, &[&[0x00], leaf])
}

pub fn node_hash(proto: Proto, l: &[u8], r: &[u8]) -> Vec<u8> {
    h(proto, &[&[0x01], l, r])
}

/// Recompute the root from a leaf, its index and its path. `None` if the path is not a whole
/// number of elements of the protocol's hash width.
pub fn root_from_path(proto: Proto, leaf: &[u8], mut index: u64, path: &[u8]) -> Option<Vec<u8>> {
    let w = proto.hash_len();
    if path.len() % w != 0 {
        return None;
    }
    let mut cur = leaf_hash(proto, leaf);
    for el in path.chunks(w) {
        cur = if index & 1 == 0 { node_hash(proto, &cur, el) } else { node_hash(proto, el, &cur) };
        index >>= 1;
    }
    Some(cur)
}

pub fn srv_value(pubkey: &[u8]) -> Vec<u8> {
    sha512(&[&[0xff], pubkey])[..32].to_vec()
}

// ---------------------------------------------------------------------------------------------
// Ed25519 (ring)
// ---------------------------------------------------------------------------------------------

pub fn pubkey_from_seed(seed: &[u8]) -> Vec<u8> {
    use ring::signature::KeyPair;
    let kp = ring::signature::Ed25519KeyPair::from_seed_unchecked(seed).expect("32-byte seed");
    kp.public_key().as_ref().to_vec()
}

pub fn sign(seed: &[u8], msg: &[u8]) -> Vec<u8> {
    let kp = ring::signature::Ed25519KeyPair::from_seed_unchecked(seed).expect("32-byte seed");
    kp.sign(msg).as_ref().to_vec()
}

thread_local! {
    static SIGMEMO: std::cell::RefCell<std::collections::HashMap<Vec<u8>, bool>> = std::cell::RefCell::new(std::collections::HashMap::new());
}

/// Ed25519 verification (ring), memoised on the complete (key, message, signature) triple: all
/// responses of a batch share one SREP and one CERT.
pub fn verify_sig(pubkey: &[u8], msg: &[u8], sig: &[u8]) -> bool {
    if pubkey.len() != 32 || sig.len() != 64 {
        return false;
    }
    let mut key = Vec::with_capacity(96 + msg.len());
    key.extend_from_slice(pubkey);
    key.extend_from_slice(sig);
    key.extend_from_slice(msg);
    if let Some(v) = SIGMEMO.with(|m| m.borrow().get(&key).copied()) {
        return v;
    }
    let v = ring::signature::UnparsedPublicKey::new(&ring::signature::ED25519, pubkey).verify(msg, sig).is_ok();
    SIGMEMO.with(|m| {
        let mut m = m.borrow_mut();
        if m.len() > 20_000 {
            m.clear();
        }
        m.insert(key, v);
    });
    v
}

/// The clamped private scalar bytes derived from a seed (RFC 8032 section 5.1.5), for leak scans.
pub fn private_scalar(seed: &[u8]) -> Vec<u8> {
    let mut s = sha512(&[seed])[..32].to_vec();
    s[0] &= 248;
    s[31] &= 127;
    s[31] |= 64;
    s
}

/// Unclamped first half of SHA-512(seed) — what an implementation holds before clamping.
pub fn expanded_secret_lo(seed: &[u8]) -> Vec<u8> {
    sha512(&[seed])[..32].to_vec()
}

// ---------------------------------------------------------------------------------------------
// request predicate
// ---------------------------------------------------------------------------------------------

#[derive(Clone, Debug, PartialEq, Eq)]
pub enum Must {
    /// the server must answer (well-formed, standard shape)
    Answer,
    /// either outcome is within the protocol (e.g. supported version only beyond the 4th entry,
    /// unknown tags, non-standard nonce length)
    Either(&'static str),
    /// the server must stay silent
    Silent(&'static str),
}

#[derive(Clone, Debug, PartialEq, Eq)]
pub struct ReqInfo {
    pub proto: Proto,
    pub nonce: Vec<u8>,
    pub must: Must,
}

/// Classify a datagram arriving at a server whose SRV value is `srv`.
/// Returns `Err(reason)` for datagrams that are not requests of either protocol.
pub fn classify_request(d: &[u8], srv: &[u8]) -> Result<ReqInfo, &'static str> {
    if d.len() < 1024 {
        return Err("shorter than 1024");
    }
    if d.len() > 1500 {
        return Err("longer than 1500");
    }
    if &d[..8] == MAGIC {
        let flen = rd32(d, 8).unwrap() as usize;
        if flen != d.len() - 12 {
            return Err("frame length mismatch");
        }
        let (m, unknown) = decode(&d[12..]).map_err(|_| "payload does not decode")?;
        let ver = m.get(VER).ok_or("no VER")?;
        let vers: Vec<u32> = ver.chunks(4).filter(|c| c.len() == 4).map(|c| u32::from_le_bytes([c[0], c[1], c[2], c[3]])).collect();
        let pos = vers.iter().position(|v| *v == VER_DRAFT13).ok_or("no supported version")?;
        if let Some(s) = m.get(SRV) {
            if s != srv {
                return Err("SRV names another server");
            }
        }
        let nonce = m.get(NONC).ok_or("no NONC")?.to_vec();
        let must = if unknown {
            Must::Either("unknown tag")
        } else if pos >= 4 {
            Must::Either("supported version beyond the fourth entry")
        } else if ver.len() % 4 != 0 {
            Must::Either("ragged VER")
        } else if nonce.len() != 32 {
            Must::Either("non-standard nonce length")
        } else {
            Must::Answer
        };
        Ok(ReqInfo { proto: Proto::Ietf, nonce, must })
    } else {
        let (m, unknown) = decode(d).map_err(|_| "does not decode")?;
        let nonce = m.get(NONC).ok_or("no NONC")?.to_vec();
        let must = if unknown {
            Must::Either("unknown tag")
        } else if nonce.len() != 64 {
            Must::Either("non-standard nonce length")
        } else {
            Must::Answer
        };
        Ok(ReqInfo { proto: Proto::Classic, nonce, must })
    }
}

// ---------------------------------------------------------------------------------------------
// response verification
// ---------------------------------------------------------------------------------------------

#[derive(Clone, Debug, PartialEq, Eq)]
pub struct Verified {
    pub midp: u64,
    pub radi: u32,
    pub root: Vec<u8>,
    pub online_pubk: Vec<u8>,
    pub mint: u64,
    pub maxt: u64,
    pub index: u32,
    pub depth: usize,
    pub nonce_echo: Option<Vec<u8>>,
    pub srep: Vec<u8>,
    pub cert: Vec<u8>,
    pub vers: Vec<u32>,
}

#[derive(Clone, Debug, PartialEq, Eq)]
pub struct Reject(pub &'static str);

fn u64le(b: &[u8]) -> Option<u64> {
    (b.len() == 8).then(|| u64::from_le_bytes(b.try_into().unwrap()))
}

fn u32le(b: &[u8]) -> Option<u32> {
    (b.len() == 4).then(|| u32::from_le_bytes(b.try_into().unwrap()))
}

pub struct VerifyOpts<'a> {
    pub proto: Proto,
    /// the complete request datagram as sent
    pub request: &'a [u8],
    /// the request's nonce
    pub nonce: &'a [u8],
    /// long-term public key to check CERT against (None: chain to the long-term key not checked)
    pub long_term_pk: Option<&'a [u8]>,
    /// demand that the response echoes the nonce (the repository's server does, both protocols)
    pub require_nonce_echo: bool,
    /// check only the conditions a client needs for authenticity (signature chain under the
    /// protocol's contexts, delegation window, inclusion proof): ignore the NONC echo, the frame
    /// length word, high INDX bits beyond the path depth, and SREP.VER/VERS
    pub lenient: bool,
}

/// Full verification of one response datagram, as a client written from the protocol
/// descriptions would do it.
pub fn verify_response(resp: &[u8], o: &VerifyOpts) -> Result<Verified, Reject> {
    let payload: &[u8] = match o.proto {
        Proto::Classic => resp,
        Proto::Ietf => {
            if resp.len() < 12 || &resp[..8] != MAGIC {
                return Err(Reject("missing frame magic"));
            }
            let flen = rd32(resp, 8).unwrap() as usize;
            if flen != resp.len() - 12 && !o.lenient {
                return Err(Reject("frame length mismatch"));
            }
            &resp[12..]
        }
    };
    let (m, unknown) = decode(payload).map_err(|_| Reject("response does not decode"))?;
    if unknown && !o.lenient {
        return Err(Reject("unknown tag in response"));
    }
    let sig = m.get(SIG).ok_or(Reject("no SIG"))?;
    let path = m.get(PATH).ok_or(Reject("no PATH"))?;
    let srep_b = m.get(SREP).ok_or(Reject("no SREP"))?;
    let cert_b = m.get(CERT).ok_or(Reject("no CERT"))?;
    let index = u32le(m.get(INDX).ok_or(Reject("no INDX"))?).ok_or(Reject("INDX not 4 bytes"))?;
    let nonce_echo = m.get(NONC).map(|n| n.to_vec());
    if o.require_nonce_echo && nonce_echo.is_none() {
        return Err(Reject("no NONC echo"));
    }
    if let Some(n) = &nonce_echo {
        if n != o.nonce && !o.lenient {
            return Err(Reject("echoed nonce differs"));
        }
    }
    if sig.len() != 64 {
        return Err(Reject("SIG not 64 bytes"));
    }
    let (srep, u1) = decode(srep_b).map_err(|_| Reject("SREP does not decode"))?;
    let (cert, u2) = decode(cert_b).map_err(|_| Reject("CERT does not decode"))?;
    if (u1 || u2) && !o.lenient {
        return Err(Reject("unknown tag in SREP/CERT"));
    }
    let dele_b = cert.get(DELE).ok_or(Reject("no DELE"))?;
    let cert_sig = cert.get(SIG).ok_or(Reject("no CERT.SIG"))?;
    let (dele, u3) = decode(dele_b).map_err(|_| Reject("DELE does not decode"))?;
    if u3 && !o.lenient {
        return Err(Reject("unknown tag in DELE"));
    }
    let pubk = dele.get(PUBK).ok_or(Reject("no PUBK"))?;
    if pubk.len() != 32 {
        return Err(Reject("PUBK not 32 bytes"));
    }
    let mint = u64le(dele.get(MINT).ok_or(Reject("no MINT"))?).ok_or(Reject("MINT not 8 bytes"))?;
    let maxt = u64le(dele.get(MAXT).ok_or(Reject("no MAXT"))?).ok_or(Reject("MAXT not 8 bytes"))?;
    let midp = u64le(srep.get(MIDP).ok_or(Reject("no MIDP"))?).ok_or(Reject("MIDP not 8 bytes"))?;
    let radi = u32le(srep.get(RADI).ok_or(Reject("no RADI"))?).ok_or(Reject("RADI not 4 bytes"))?;
    let root = srep.get(ROOT).ok_or(Reject("no ROOT"))?;
    if root.len() != o.proto.hash_len() {
        return Err(Reject("ROOT has the wrong width"));
    }
    let mut vers = Vec::new();
    if o.proto == Proto::Ietf && !o.lenient {
        let v = u32le(srep.get(VER).ok_or(Reject("no SREP.VER"))?).ok_or(Reject("SREP.VER not 4 bytes"))?;
        if v != VER_DRAFT13 {
            return Err(Reject("SREP.VER is not draft-13"));
        }
        let vs = srep.get(VERS).ok_or(Reject("no SREP.VERS"))?;
        if vs.is_empty() || vs.len() % 4 != 0 {
            return Err(Reject("SREP.VERS malformed"));
        }
        vers = vs.chunks(4).map(|c| u32::from_le_bytes([c[0], c[1], c[2], c[3]])).collect();
        if !vers.contains(&VER_DRAFT13) {
            return Err(Reject("SREP.VERS lacks draft-13"));
        }
    }
    // signature chain
    if let Some(pk) = o.long_term_pk {
        let mut msg = o.proto.dele_context().to_vec();
        msg.extend_from_slice(dele_b);
        if !verify_sig(pk, &msg, cert_sig) {
            return Err(Reject("CERT.SIG does not verify under the long-term key"));
        }
    }
    let mut msg = o.proto.srep_context().to_vec();
    msg.extend_from_slice(srep_b);
    if !verify_sig(pubk, &msg, sig) {
        return Err(Reject("SIG does not verify under the delegated key"));
    }
    // delegation window
    if midp < mint || midp > maxt {
        return Err(Reject("midpoint outside the delegation window"));
    }
    // Merkle proof
    let w = o.proto.hash_len();
    if path.len() % w != 0 {
        return Err(Reject("PATH is not a whole number of hash-width elements"));
    }
    let depth = path.len() / w;
    if depth > 32 && !o.lenient {
        return Err(Reject("PATH deeper than 32"));
    }
    if (index as u64) >> depth != 0 && !o.lenient {
        return Err(Reject("INDX out of range for the path depth"));
    }
    let leaf: &[u8] = match o.proto {
        Proto::Classic => o.nonce,
        Proto::Ietf => o.request,
    };
    let r = root_from_path(o.proto, leaf, index as u64, path).ok_or(Reject("PATH width"))?;
    if r != root {
        return Err(Reject("inclusion path does not recompute the signed root"));
    }
    Ok(Verified {
        midp,
        radi,
        root: root.to_vec(),
        online_pubk: pubk.to_vec(),
        mint,
        maxt,
        index,
        depth,
        nonce_echo,
        srep: srep_b.to_vec(),
        cert: cert_b.to_vec(),
        vers,
    })
}

/// Does CERT verify under `pk` with the *given* protocol's delegation context?
pub fn cert_verifies(cert_b: &[u8], pk: &[u8], proto: Proto) -> bool {
    let Ok((cert, _)) = decode(cert_b) else { return false };
    let (Some(dele_b), Some(sig)) = (cert.get(DELE), cert.get(SIG)) else { return false };
    let mut msg = proto.dele_context().to_vec();
    msg.extend_from_slice(dele_b);
    verify_sig(pk, &msg, sig)
}

// ---------------------------------------------------------------------------------------------
// request and response construction (RefClient / RefServer)
// ---------------------------------------------------------------------------------------------

/// A standard request of `size` bytes (multiple of 4, >= the minimum for its fields).
pub fn build_request(proto: Proto, nonce: &[u8], size: usize, srv: Option<&[u8]>, vers: &[u32]) -> Vec<u8> {
    assert!(size % 4 == 0);
    match proto {
        Proto::Classic => {
            let mut m = Msg::new();
            m.put(NONC, nonce);
            m.put(PAD, &[]);
            let base = m.encode().len();
            let pad = size.saturating_sub(base);
            m.put(PAD, &vec![0u8; pad]);
            m.encode()
        }
        Proto::Ietf => {
            let mut m = Msg::new();
            let mut v = Vec::new();
            for x in vers {
                v.extend_from_slice(&x.to_le_bytes());
            }
            m.put(VER, &v);
            if let Some(s) = srv {
                m.put(SRV, s);
            }
            m.put(NONC, nonce);
            m.put(ZZZZ, &[]);
            let base = m.encode().len() + 12;
            let pad = size.saturating_sub(base);
            m.put(ZZZZ, &vec![0u8; pad]);
            m.encode_framed()
        }
    }
}

/// Honest reference server: own long-term seed and online seed.
#[derive(Clone, Debug)]
pub struct RefServer {
    pub long_seed: [u8; 32],
    pub online_seed: [u8; 32],
    pub mint: u64,
    pub maxt: u64,
}

pub struct BatchSlot<'a> {
    pub request: &'a [u8],
    pub nonce: &'a [u8],
    pub index: u32,
    /// sibling hashes, leaf level first (each proto.hash_len() bytes)
    pub siblings: &'a [Vec<u8>],
}

impl RefServer {
    pub fn new(long_seed: [u8; 32], online_seed: [u8; 32]) -> RefServer {
        RefServer { long_seed, online_seed, mint: 0, maxt: u64::MAX }
    }

    pub fn long_pk(&self) -> Vec<u8> {
        pubkey_from_seed(&self.long_seed)
    }

    pub fn cert(&self, proto: Proto) -> Vec<u8> {
        let mut dele = Msg::new();
        dele.put(PUBK, &pubkey_from_seed(&self.online_seed));
        dele.put(MINT, &self.mint.to_le_bytes());
        dele.put(MAXT, &self.maxt.to_le_bytes());
        let dele_b = dele.encode();
        let mut msg = proto.dele_context().to_vec();
        msg.extend_from_slice(&dele_b);
        let sig = sign(&self.long_seed, &msg);
        let mut cert = Msg::new();
        cert.put(SIG, &sig);
        cert.put(DELE, &dele_b);
        cert.encode()
    }

    pub fn srep(&self, proto: Proto, midp: u64, radi: u32, root: &[u8]) -> (Vec<u8>, Vec<u8>) {
        let mut s = Msg::new();
        s.put(RADI, &radi.to_le_bytes());
        s.put(MIDP, &midp.to_le_bytes());
        s.put(ROOT, root);
        if proto == Proto::Ietf {
            s.put(VER, &VER_DRAFT13.to_le_bytes());
            let mut vs = Vec::new();
            vs.extend_from_slice(&VER_DRAFT13.to_le_bytes());
            s.put(VERS, &vs);
        }
        let srep_b = s.encode();
        let mut msg = proto.srep_context().to_vec();
        msg.extend_from_slice(&srep_b);
        (srep_b, sign(&self.online_seed, &msg))
    }

    /// Build the response for one slot of a batch whose other members are summarised by the
    /// sibling hashes (any index below 2^depth gives a valid proof).
    pub fn respond(&self, proto: Proto, slot: &BatchSlot, midp: u64) -> Vec<u8> {
        let mut path = Vec::new();
        for s in slot.siblings {
            assert_eq!(s.len(), proto.hash_len());
            path.extend_from_slice(s);
        }
        let leaf: &[u8] = match proto {
            Proto::Classic => slot.nonce,
            Proto::Ietf => slot.request,
        };
        let root = root_from_path(proto, leaf, slot.index as u64, &path).unwrap();
        let (srep_b, sig) = self.srep(proto, midp, proto.radius_5s(), &root);
        let mut m = Msg::new();
        m.put(SIG, &sig);
        m.put(NONC, slot.nonce);
        m.put(PATH, &path);
        m.put(SREP, &srep_b);
        m.put(CERT, &self.cert(proto));
        m.put(INDX, &slot.index.to_le_bytes());
        match proto {
            Proto::Classic => m.encode(),
            Proto::Ietf => m.encode_framed(),
        }
    }
}

// ---------------------------------------------------------------------------------------------
// encodings for leak scans
// ---------------------------------------------------------------------------------------------

pub fn hex_lower(b: &[u8]) -> String {
    b.iter().map(|x| format!("{:02x}", x)).collect()
}

pub fn base64(b: &[u8], url: bool, pad: bool) -> String {
    let abc: &[u8; 64] = if url { b"ABCDEFGHIJKLMNOPQRSTUVWXYZabcdefghijklmnopqrstuvwxyz0123456789-_" } else { b"ABCDEFGHIJKLMNOPQRSTUVWXYZabcdefghijklmnopqrstuvwxyz0123456789+/" };
    let mut out = String::new();
    for c in b.chunks(3) {
        let n = (c[0] as u32) << 16 | (*c.get(1).unwrap_or(&0) as u32) << 8 | *c.get(2).unwrap_or(&0) as u32;
        out.push(abc[(n >> 18) as usize & 63] as char);
        out.push(abc[(n >> 12) as usize & 63] as char);
        if c.len() > 1 {
            out.push(abc[(n >> 6) as usize & 63] as char);
        } else if pad {
            out.push('=');
        }
        if c.len() > 2 {
            out.push(abc[n as usize & 63] as char);
        } else if pad {
            out.push('=');
        }
    }
    out
}

pub fn find_sub(hay: &[u8], needle: &[u8]) -> bool {
    !needle.is_empty() && hay.len() >= needle.len() && hay.windows(needle.len()).any(|w| w == needle)
}

#[cfg(test)]
mod tests {
    use super::*;

    #[test]
    fn roundtrip_and_verify() {
        for proto in [Proto::Classic, Proto::Ietf] {
            let rs = RefServer::new([7; 32], [9; 32]);
            let nonce = vec![3u8; proto.nonce_len()];
            let req = build_request(proto, &nonce, 1024, None, &[VER_DRAFT13]);
            assert_eq!(req.len(), 1024);
            let info = classify_request(&req, &srv_value(&rs.long_pk())).unwrap();
            assert_eq!(info.must, Must::Answer);
            let sib = vec![vec![5u8; proto.hash_len()], vec![6u8; proto.hash_len()]];
            let resp = rs.respond(proto, &BatchSlot { request: &req, nonce: &nonce, index: 2, siblings: &sib }, 1_700_000_000);
            let pk = rs.long_pk();
            let v = verify_response(&resp, &VerifyOpts { proto, request: &req, nonce: &nonce, long_term_pk: Some(&pk), require_nonce_echo: true, lenient: false }).unwrap();
            assert_eq!(v.index, 2);
            assert_eq!(v.depth, 2);
            let mut bad = resp.clone();
            let n = bad.len();
            bad[n - 1] ^= 1;
            assert!(verify_response(&bad, &VerifyOpts { proto, request: &req, nonce: &nonce, long_term_pk: Some(&pk), require_nonce_echo: true, lenient: false }).is_err());
        }
    }

    #[test]
    fn b64() {
        assert_eq!(base64(b"foobar", false, true), "Zm9vYmFy");
        assert_eq!(base64(b"fooba", false, true), "Zm9vYmE=");
        assert_eq!(base64(b"foob", false, false), "Zm9vYg");
    }
}
