//! Simulated replacements for the `std` items the repository touches directly. Present only in
//! the shadow manifests under /verif; `/repo` refers to it behind `cfg(roughenough_verif)`.

pub use std::io;

// Every module below is a superset of its namesake in std: what is not replaced is re-exported,
// so that code importing further items through a hooked `use` line still compiles.

pub mod time {
    pub use std::time::*;

    // `SystemTime` is std's own type: its `now()` reaches the interposed `clock_gettime`, which
    // returns the simulated wall clock, records the reading and is a scheduling point.

    /// Monotonic simulated time.
    #[derive(Clone, Copy, Debug, PartialEq, Eq, PartialOrd, Ord)]
    pub struct Instant(u64);

    impl Instant {
        pub fn now() -> Instant {
            Instant(dsim::now())
        }
        pub fn elapsed(&self) -> Duration {
            Duration::from_nanos(dsim::now().saturating_sub(self.0))
        }
        pub fn duration_since(&self, earlier: Instant) -> Duration {
            Duration::from_nanos(self.0.saturating_sub(earlier.0))
        }
        pub fn saturating_duration_since(&self, earlier: Instant) -> Duration {
            self.duration_since(earlier)
        }
        pub fn checked_duration_since(&self, earlier: Instant) -> Option<Duration> {
            self.0.checked_sub(earlier.0).map(Duration::from_nanos)
        }
        pub fn checked_add(&self, d: Duration) -> Option<Instant> {
            u64::try_from(d.as_nanos()).ok().and_then(|n| self.0.checked_add(n)).map(Instant)
        }
        pub fn checked_sub(&self, d: Duration) -> Option<Instant> {
            u64::try_from(d.as_nanos()).ok().and_then(|n| self.0.checked_sub(n)).map(Instant)
        }
    }

    impl std::ops::Sub<Duration> for Instant {
        type Output = Instant;
        fn sub(self, d: Duration) -> Instant {
            Instant(self.0.saturating_sub(d.as_nanos().min(u64::MAX as u128) as u64))
        }
    }

    impl std::ops::AddAssign<Duration> for Instant {
        fn add_assign(&mut self, d: Duration) {
            *self = *self + d;
        }
    }

    impl std::ops::SubAssign<Duration> for Instant {
        fn sub_assign(&mut self, d: Duration) {
            *self = *self - d;
        }
    }

    impl std::hash::Hash for Instant {
        fn hash<H: std::hash::Hasher>(&self, h: &mut H) {
            self.0.hash(h)
        }
    }

    impl std::ops::Add<Duration> for Instant {
        type Output = Instant;
        fn add(self, d: Duration) -> Instant {
            Instant(self.0.saturating_add(d.as_nanos().min(u64::MAX as u128 / 2) as u64))
        }
    }

    impl std::ops::Sub<Instant> for Instant {
        type Output = Duration;
        fn sub(self, o: Instant) -> Duration {
            Duration::from_nanos(self.0.saturating_sub(o.0))
        }
    }
}

pub mod thread {
    pub use std::thread::*;
    use std::cell::RefCell;
    use std::io;
    use std::num::NonZeroUsize;
    use std::rc::Rc;
    use std::time::Duration;

    #[derive(Clone, Debug)]
    pub struct Thread {
        name: Option<String>,
        id: ThreadId,
    }

    /// the simulated task's number
    #[derive(Clone, Copy, Debug, PartialEq, Eq, Hash, PartialOrd, Ord)]
    pub struct ThreadId(u64);

    impl Thread {
        pub fn name(&self) -> Option<&str> {
            self.name.as_deref()
        }
        pub fn id(&self) -> ThreadId {
            self.id
        }
        pub fn unpark(&self) {}
    }

    pub fn current() -> Thread {
        Thread { name: dsim::current_task_name(), id: ThreadId(dsim::current_task_id().map(|t| t as u64 + 1).unwrap_or(0)) }
    }

    pub fn sleep(d: Duration) {
        dsim::sleep(d)
    }

    #[allow(deprecated)]
    pub fn sleep_ms(ms: u32) {
        dsim::sleep(Duration::from_millis(ms as u64))
    }

    /// a scheduling point
    pub fn yield_now() {
        dsim::yield_point(dsim::Op::Small)
    }

    /// nobody unparks in this model: a parked task sleeps (an hour of simulated time at most)
    pub fn park() {
        dsim::sleep(Duration::from_secs(3600))
    }

    pub fn park_timeout(d: Duration) {
        dsim::sleep(d)
    }

    pub fn panicking() -> bool {
        std::thread::panicking()
    }

    pub fn available_parallelism() -> io::Result<NonZeroUsize> {
        let n = dsim::with(|w| w.cfg.cores).max(1);
        Ok(NonZeroUsize::new(n).unwrap())
    }

    pub type Result<T> = std::result::Result<T, Box<dyn std::any::Any + Send + 'static>>;

    pub struct JoinHandle<T> {
        task: dsim::TaskId,
        slot: Rc<RefCell<Option<T>>>,
        thread: Thread,
    }

    impl<T> JoinHandle<T> {
        pub fn thread(&self) -> &Thread {
            &self.thread
        }
        pub fn is_finished(&self) -> bool {
            dsim::task_done(self.task)
        }
        pub fn join(self) -> Result<T> {
            match dsim::join_task(self.task) {
                dsim::TaskEnd::Returned => Ok(self.slot.borrow_mut().take().expect("joined task left no value")),
                dsim::TaskEnd::Panicked(m) => Err(Box::new(m)),
                dsim::TaskEnd::Exited(c) => Err(Box::new(format!("exit({})", c))),
                dsim::TaskEnd::Killed => Err(Box::new("killed".to_string())),
            }
        }
    }

    #[derive(Default)]
    pub struct Builder {
        name: Option<String>,
    }

    impl Builder {
        pub fn new() -> Builder {
            Builder { name: None }
        }
        pub fn name(mut self, name: String) -> Builder {
            self.name = Some(name);
            self
        }
        pub fn stack_size(self, _size: usize) -> Builder {
            self
        }
        pub fn spawn<F, T>(self, f: F) -> io::Result<JoinHandle<T>>
        where
            F: FnOnce() -> T + Send + 'static,
            T: Send + 'static,
        {
            let slot: Rc<RefCell<Option<T>>> = Rc::new(RefCell::new(None));
            let s2 = slot.clone();
            let name = self.name.unwrap_or_else(|| "<unnamed>".to_string());
            let task = dsim::spawn_task(&name.clone(), Box::new(move || {
                let v = f();
                *s2.borrow_mut() = Some(v);
            }));
            Ok(JoinHandle { task, slot, thread: Thread { name: Some(name), id: ThreadId(task as u64 + 1) } })
        }
    }

    pub fn spawn<F, T>(f: F) -> JoinHandle<T>
    where
        F: FnOnce() -> T + Send + 'static,
        T: Send + 'static,
    {
        Builder::new().spawn(f).unwrap()
    }
}

pub mod sync {
    pub use std::sync::*;
    use std::cell::UnsafeCell;
    use std::ops::{Deref, DerefMut};

    /// A mutex whose lock is a scheduling point and whose poisoning follows std's rules.
    pub struct Mutex<T: ?Sized> {
        id: dsim::MutexId,
        data: UnsafeCell<T>,
    }

    // one OS thread runs the whole simulation; tasks are cooperative
    unsafe impl<T: ?Sized + Send> Send for Mutex<T> {}
    unsafe impl<T: ?Sized + Send> Sync for Mutex<T> {}

    impl<T> Mutex<T> {
        pub fn new(t: T) -> Mutex<T> {
            Mutex { id: dsim::mutex_new(), data: UnsafeCell::new(t) }
        }
        pub fn into_inner(self) -> LockResult<T> {
            let poisoned = dsim::mutex_is_poisoned(self.id);
            let v = self.data.into_inner();
            if poisoned {
                Err(PoisonError::new(v))
            } else {
                Ok(v)
            }
        }
    }

    impl<T: Default> Default for Mutex<T> {
        fn default() -> Mutex<T> {
            Mutex::new(T::default())
        }
    }

    impl<T: ?Sized + std::fmt::Debug> std::fmt::Debug for Mutex<T> {
        fn fmt(&self, f: &mut std::fmt::Formatter<'_>) -> std::fmt::Result {
            f.debug_struct("Mutex").finish_non_exhaustive()
        }
    }

    impl<T: ?Sized> Mutex<T> {
        pub fn lock(&self) -> LockResult<MutexGuard<'_, T>> {
            let poisoned = dsim::mutex_lock(self.id);
            let g = MutexGuard { m: self };
            if poisoned {
                Err(PoisonError::new(g))
            } else {
                Ok(g)
            }
        }
        pub fn try_lock(&self) -> TryLockResult<MutexGuard<'_, T>> {
            match dsim::mutex_try_lock(self.id) {
                None => Err(TryLockError::WouldBlock),
                Some(true) => Err(TryLockError::Poisoned(PoisonError::new(MutexGuard { m: self }))),
                Some(false) => Ok(MutexGuard { m: self }),
            }
        }
        pub fn is_poisoned(&self) -> bool {
            dsim::mutex_is_poisoned(self.id)
        }
        pub fn clear_poison(&self) {
            dsim::mutex_clear_poison(self.id)
        }
        pub fn get_mut(&mut self) -> LockResult<&mut T> {
            let poisoned = dsim::mutex_is_poisoned(self.id);
            let v = self.data.get_mut();
            if poisoned {
                Err(PoisonError::new(v))
            } else {
                Ok(v)
            }
        }
    }

    pub struct MutexGuard<'a, T: ?Sized> {
        m: &'a Mutex<T>,
    }

    impl<T: ?Sized> Deref for MutexGuard<'_, T> {
        type Target = T;
        fn deref(&self) -> &T {
            unsafe { &*self.m.data.get() }
        }
    }

    impl<T: ?Sized> DerefMut for MutexGuard<'_, T> {
        fn deref_mut(&mut self) -> &mut T {
            unsafe { &mut *self.m.data.get() }
        }
    }

    impl<T: ?Sized> Drop for MutexGuard<'_, T> {
        fn drop(&mut self) {
            dsim::mutex_unlock(self.m.id, std::thread::panicking());
        }
    }
}

pub mod process {
    pub use std::process::*;

    pub fn exit(code: i32) -> ! {
        dsim::proc_exit(code)
    }

    /// `abort()` ends the process with SIGABRT (status 134 as a shell reports it)
    pub fn abort() -> ! {
        dsim::proc_exit(134)
    }

    pub fn id() -> u32 {
        4242
    }
}

pub mod env {
    pub use std::env::*;

    pub struct Args {
        inner: std::vec::IntoIter<String>,
    }

    impl Iterator for Args {
        type Item = String;
        fn next(&mut self) -> Option<String> {
            self.inner.next()
        }
        fn size_hint(&self) -> (usize, Option<usize>) {
            self.inner.size_hint()
        }
    }

    impl ExactSizeIterator for Args {
        fn len(&self) -> usize {
            self.inner.len()
        }
    }

    pub fn args() -> Args {
        let v = dsim::with(|w| {
            let p = w.cur_proc();
            w.procs[p].argv.clone()
        });
        Args { inner: v.into_iter() }
    }

    impl DoubleEndedIterator for Args {
        fn next_back(&mut self) -> Option<String> {
            self.inner.next_back()
        }
    }

    pub struct ArgsOs {
        inner: std::vec::IntoIter<std::ffi::OsString>,
    }

    impl Iterator for ArgsOs {
        type Item = std::ffi::OsString;
        fn next(&mut self) -> Option<std::ffi::OsString> {
            self.inner.next()
        }
        fn size_hint(&self) -> (usize, Option<usize>) {
            self.inner.size_hint()
        }
    }

    impl ExactSizeIterator for ArgsOs {
        fn len(&self) -> usize {
            self.inner.len()
        }
    }

    impl DoubleEndedIterator for ArgsOs {
        fn next_back(&mut self) -> Option<std::ffi::OsString> {
            self.inner.next_back()
        }
    }

    pub fn args_os() -> ArgsOs {
        let v: Vec<std::ffi::OsString> = args().map(std::ffi::OsString::from).collect();
        ArgsOs { inner: v.into_iter() }
    }

    pub fn var<K: AsRef<std::ffi::OsStr>>(key: K) -> Result<String, VarError> {
        let key = key.as_ref().to_string_lossy().to_string();
        dsim::with(|w| {
            let p = w.cur_proc();
            w.procs[p].env.get(&key).cloned().ok_or(VarError::NotPresent)
        })
    }

    pub fn var_os<K: AsRef<std::ffi::OsStr>>(key: K) -> Option<std::ffi::OsString> {
        var(key).ok().map(std::ffi::OsString::from)
    }

    /// the simulated process's environment (a snapshot, like std's)
    pub fn vars() -> std::vec::IntoIter<(String, String)> {
        let v: Vec<(String, String)> = dsim::with(|w| {
            let p = w.cur_proc();
            w.procs[p].env.iter().map(|(k, v)| (k.clone(), v.clone())).collect()
        });
        v.into_iter()
    }

    pub fn vars_os() -> std::vec::IntoIter<(std::ffi::OsString, std::ffi::OsString)> {
        let v: Vec<_> = vars().map(|(k, v)| (std::ffi::OsString::from(k), std::ffi::OsString::from(v))).collect();
        v.into_iter()
    }

    pub fn set_var<K: AsRef<std::ffi::OsStr>, V: AsRef<std::ffi::OsStr>>(key: K, value: V) {
        let (k, v) = (key.as_ref().to_string_lossy().to_string(), value.as_ref().to_string_lossy().to_string());
        dsim::with(|w| {
            let p = w.cur_proc();
            w.procs[p].env.insert(k, v);
        })
    }

    pub fn remove_var<K: AsRef<std::ffi::OsStr>>(key: K) {
        let k = key.as_ref().to_string_lossy().to_string();
        dsim::with(|w| {
            let p = w.cur_proc();
            w.procs[p].env.remove(&k);
        })
    }
}

pub mod fs {
    pub use std::fs::*;
    use std::io::{self, Read, Write};
    use std::path::Path;

    /// In-memory file of the simulated world, with injectable create/write errors.
    pub struct File {
        path: String,
        pos: usize,
        writable: bool,
    }

    impl File {
        pub fn open<P: AsRef<Path>>(path: P) -> io::Result<File> {
            let path = path.as_ref().to_string_lossy().to_string();
            dsim::yield_point(dsim::Op::Small);
            dsim::with(|w| {
                let ok = w.vfs.contains_key(&path);
                w.record(dsim::Ev::FileOpen { path: path.clone(), ok });
                if ok {
                    Ok(File { path, pos: 0, writable: false })
                } else {
                    Err(io::Error::new(io::ErrorKind::NotFound, "No such file or directory (os error 2)"))
                }
            })
        }

        pub fn create<P: AsRef<Path>>(path: P) -> io::Result<File> {
            let path = path.as_ref().to_string_lossy().to_string();
            dsim::yield_point(dsim::Op::Small);
            disk_time(200);
            dsim::with(|w| {
                let rate = w.cfg.faults.file_create_err;
                let fail = w.fault("file_create_err", rate);
                w.record(dsim::Ev::FileCreate { path: path.clone(), ok: !fail });
                if fail {
                    return Err(io::Error::new(io::ErrorKind::PermissionDenied, "Permission denied (os error 13)"));
                }
                // a path component that is an existing *file* cannot be a directory (ENOTDIR)
                let mut at = 0;
                while let Some(i) = path[at..].find('/') {
                    let prefix = &path[..at + i];
                    if !prefix.is_empty() && w.vfs.contains_key(prefix) {
                        return Err(io::Error::new(io::ErrorKind::Other, "Not a directory (os error 20)"));
                    }
                    at += i + 1;
                }
                w.vfs.insert(path.clone(), dsim::VFile::default());
                Ok(File { path, pos: 0, writable: true })
            })
        }

        pub fn metadata(&self) -> io::Result<Metadata> {
            let len = dsim::with(|w| w.vfs.get(&self.path).map(|f| f.data.len() as u64)).ok_or_else(|| io::Error::new(io::ErrorKind::NotFound, "gone"))?;
            Ok(Metadata { len, dir: false })
        }

        pub fn sync_all(&self) -> io::Result<()> {
            disk_time(300);
            Ok(())
        }

        pub fn sync_data(&self) -> io::Result<()> {
            disk_time(300);
            Ok(())
        }

        pub fn set_len(&self, size: u64) -> io::Result<()> {
            dsim::with(|w| {
                if let Some(f) = w.vfs.get_mut(&self.path) {
                    f.data.resize(size as usize, 0);
                }
            });
            Ok(())
        }

        pub fn options() -> OpenOptions {
            OpenOptions::new()
        }
    }

    /// What `metadata` reports about a file or directory of the simulated world.
    #[derive(Clone, Debug)]
    pub struct Metadata {
        len: u64,
        dir: bool,
    }

    impl Metadata {
        pub fn len(&self) -> u64 {
            self.len
        }
        pub fn is_empty(&self) -> bool {
            self.len == 0
        }
        pub fn is_file(&self) -> bool {
            !self.dir
        }
        pub fn is_dir(&self) -> bool {
            self.dir
        }
    }

    // The free functions of std::fs over the simulated file system. A path that is no file of the
    // simulated world but exists on the host (the persistence directory, /repo/example.cfg read by
    // one C15 scenario) is looked up there for reading; nothing is ever written to the host.

    pub fn read<P: AsRef<Path>>(path: P) -> io::Result<Vec<u8>> {
        let p = path.as_ref().to_string_lossy().to_string();
        dsim::yield_point(dsim::Op::Small);
        match dsim::with(|w| w.vfs.get(&p).map(|f| f.data.clone())) {
            Some(d) => {
                dsim::with(|w| w.record(dsim::Ev::FileOpen { path: p.clone(), ok: true }));
                Ok(d)
            }
            None => std::fs::read(path),
        }
    }

    pub fn read_to_string<P: AsRef<Path>>(path: P) -> io::Result<String> {
        String::from_utf8(read(path)?).map_err(|_| io::Error::new(io::ErrorKind::InvalidData, "stream did not contain valid UTF-8"))
    }

    pub fn write<P: AsRef<Path>, C: AsRef<[u8]>>(path: P, contents: C) -> io::Result<()> {
        let mut f = File::create(path)?;
        f.write_all(contents.as_ref())
    }

    pub fn metadata<P: AsRef<Path>>(path: P) -> io::Result<Metadata> {
        let p = path.as_ref().to_string_lossy().to_string();
        if let Some(len) = dsim::with(|w| w.vfs.get(&p).map(|f| f.data.len() as u64)) {
            return Ok(Metadata { len, dir: false });
        }
        let prefix = format!("{}/", p.trim_end_matches('/'));
        if dsim::with(|w| w.vfs.keys().any(|k| k.starts_with(&prefix))) {
            return Ok(Metadata { len: 4096, dir: true });
        }
        std::fs::metadata(path).map(|m| Metadata { len: m.len(), dir: m.is_dir() })
    }

    pub fn remove_file<P: AsRef<Path>>(path: P) -> io::Result<()> {
        let p = path.as_ref().to_string_lossy().to_string();
        dsim::with(|w| w.vfs.remove(&p)).map(|_| ()).ok_or_else(|| io::Error::new(io::ErrorKind::NotFound, "No such file or directory (os error 2)"))
    }

    pub fn rename<P: AsRef<Path>, Q: AsRef<Path>>(from: P, to: Q) -> io::Result<()> {
        let (a, b) = (from.as_ref().to_string_lossy().to_string(), to.as_ref().to_string_lossy().to_string());
        dsim::with(|w| match w.vfs.remove(&a) {
            Some(f) => {
                w.vfs.insert(b, f);
                Ok(())
            }
            None => Err(io::Error::new(io::ErrorKind::NotFound, "No such file or directory (os error 2)")),
        })
    }

    pub fn create_dir<P: AsRef<Path>>(_path: P) -> io::Result<()> {
        Ok(())
    }

    pub fn create_dir_all<P: AsRef<Path>>(_path: P) -> io::Result<()> {
        Ok(())
    }

    /// `OpenOptions` over the simulated file system (create / truncate / append / read / write)
    #[derive(Clone, Debug, Default)]
    pub struct OpenOptions {
        read: bool,
        write: bool,
        append: bool,
        truncate: bool,
        create: bool,
        create_new: bool,
    }

    impl OpenOptions {
        pub fn new() -> OpenOptions {
            OpenOptions::default()
        }
        pub fn read(&mut self, on: bool) -> &mut OpenOptions {
            self.read = on;
            self
        }
        pub fn write(&mut self, on: bool) -> &mut OpenOptions {
            self.write = on;
            self
        }
        pub fn append(&mut self, on: bool) -> &mut OpenOptions {
            self.append = on;
            self
        }
        pub fn truncate(&mut self, on: bool) -> &mut OpenOptions {
            self.truncate = on;
            self
        }
        pub fn create(&mut self, on: bool) -> &mut OpenOptions {
            self.create = on;
            self
        }
        pub fn create_new(&mut self, on: bool) -> &mut OpenOptions {
            self.create_new = on;
            self
        }
        pub fn open<P: AsRef<Path>>(&self, path: P) -> io::Result<File> {
            let p = path.as_ref().to_string_lossy().to_string();
            let exists = dsim::with(|w| w.vfs.contains_key(&p));
            if self.create_new && exists {
                dsim::with(|w| w.record(dsim::Ev::FileCreate { path: p.clone(), ok: false }));
                return Err(io::Error::new(io::ErrorKind::AlreadyExists, "File exists (os error 17)"));
            }
            let writing = self.write || self.append;
            if !exists && !(writing && (self.create || self.create_new)) {
                return File::open(path);
            }
            if !exists || (writing && self.truncate) {
                // creating (or truncating) is what File::create does, including its injectable failure
                let mut f = File::create(path)?;
                f.writable = writing;
                return Ok(f);
            }
            dsim::yield_point(dsim::Op::Small);
            dsim::with(|w| w.record(dsim::Ev::FileOpen { path: p.clone(), ok: true }));
            let end = dsim::with(|w| w.vfs.get(&p).map(|f| f.data.len()).unwrap_or(0));
            Ok(File { path: p, pos: if self.append { end } else { 0 }, writable: writing })
        }
    }

    /// A file operation takes simulated time: `base_us` plus, when the disk-stall fault fires, a
    /// stall of up to the configured maximum. Never sleeps while unwinding (writes from Drop).
    fn disk_time(base_us: u64) {
        if std::thread::panicking() {
            return;
        }
        let stall_ms = dsim::try_with(|w| {
            if w.current.is_none() {
                return 0;
            }
            let (rate, max) = (w.cfg.faults.disk_stall, w.cfg.faults.disk_stall_max_ms);
            if w.fault("disk_stall", rate) {
                1 + w.choose(max.max(1)) as u64
            } else {
                0
            }
        })
        .unwrap_or(0);
        dsim::disk_wait(std::time::Duration::from_micros(base_us + stall_ms * 1000));
    }

    impl Read for File {
        fn read(&mut self, buf: &mut [u8]) -> io::Result<usize> {
            dsim::with(|w| {
                let f = w.vfs.get(&self.path).ok_or_else(|| io::Error::new(io::ErrorKind::NotFound, "gone"))?;
                let n = buf.len().min(f.data.len().saturating_sub(self.pos));
                buf[..n].copy_from_slice(&f.data[self.pos..self.pos + n]);
                self.pos += n;
                Ok(n)
            })
        }
    }

    impl Write for File {
        fn write(&mut self, buf: &[u8]) -> io::Result<usize> {
            if !self.writable {
                return Err(io::Error::new(io::ErrorKind::PermissionDenied, "not opened for writing"));
            }
            disk_time(50 + buf.len() as u64 / 100);
            dsim::try_with(|w| {
                let rate = w.cfg.faults.file_write_err;
                let fail = w.fault("file_write_err", rate);
                w.record(dsim::Ev::FileWrite { path: self.path.clone(), n: buf.len(), ok: !fail });
                if fail {
                    return Err(io::Error::new(io::ErrorKind::Other, "No space left on device (os error 28)"));
                }
                w.vfs.entry(self.path.clone()).or_default().data.extend_from_slice(buf);
                Ok(buf.len())
            })
            .unwrap_or(Ok(buf.len()))
        }
        fn flush(&mut self) -> io::Result<()> {
            Ok(())
        }
    }
}

pub mod net {
    pub use std::net::*;
    use std::io;
    use std::time::Duration;

    /// std-style blocking UDP socket of a simulated process (the client binary's socket).
    pub struct UdpSocket {
        id: dsim::SockId,
    }

    impl UdpSocket {
        pub fn bind<A: ToSocketAddrs>(addr: A) -> io::Result<UdpSocket> {
            let a = addr.to_socket_addrs()?.next().ok_or_else(|| io::Error::new(io::ErrorKind::InvalidInput, "no address"))?;
            dsim::yield_point(dsim::Op::Small);
            let id = dsim::with(|w| {
                let p = w.cur_proc();
                w.udp_socket(p)
            });
            dsim::with(|w| w.udp_bind(id, a))?;
            Ok(UdpSocket { id })
        }

        pub fn send_to<A: ToSocketAddrs>(&self, buf: &[u8], addr: A) -> io::Result<usize> {
            let a = addr.to_socket_addrs()?.next().ok_or_else(|| io::Error::new(io::ErrorKind::InvalidInput, "no address"))?;
            dsim::udp_send_to(self.id, buf, a)
        }

        pub fn set_read_timeout(&self, dur: Option<Duration>) -> io::Result<()> {
            dsim::with(|w| w.socks[self.id].read_timeout = dur);
            Ok(())
        }

        pub fn recv_from(&self, buf: &mut [u8]) -> io::Result<(usize, SocketAddr)> {
            dsim::udp_recv_blocking(self.id, buf)
        }

        pub fn local_addr(&self) -> io::Result<SocketAddr> {
            dsim::with(|w| w.socks[self.id].addr).ok_or_else(|| io::Error::new(io::ErrorKind::Other, "unbound"))
        }

        pub fn sim_id(&self) -> dsim::SockId {
            self.id
        }
    }

    impl Drop for UdpSocket {
        fn drop(&mut self) {
            dsim::try_with(|w| {
                if self.id < w.socks.len() {
                    w.udp_close(self.id)
                }
            });
        }
    }
}

/// Knobs consulted by added hook items (H7).
pub mod knobs {
    pub fn get(name: &str) -> Option<i64> {
        dsim::try_with(|w| w.knobs.get(name).copied()).flatten()
    }

    /// Limit on tracked client addresses: the repository's constant unless a run lowers it.
    pub fn max_clients(default: usize) -> usize {
        get("max_clients").map(|v| v as usize).unwrap_or(default)
    }
}
