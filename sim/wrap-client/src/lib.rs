//! The repository's `roughenough-client` binary compiled as a library: `main()` is the real code;
//! `println!`/`eprintln!` are routed to the simulated process's stdout/stderr.
#![allow(dead_code)]

macro_rules! println {
    () => { dsim::stdout("\n") };
    ($($arg:tt)*) => {{ let mut s = format!($($arg)*); s.push('\n'); dsim::stdout(&s); }};
}

macro_rules! eprintln {
    () => { dsim::stderr("\n") };
    ($($arg:tt)*) => {{ let mut s = format!($($arg)*); s.push('\n'); dsim::stderr(&s); }};
}

include!(concat!(env!("OUT_DIR"), "/client_bin.rs"));

/// Run the real `main()` as the main thread of a simulated process.
pub fn verif_main() {
    let code = verif_exit_status(main());
    if code != 0 {
        verif_std::process::exit(code);
    }
}

fn verif_exit_status<T: std::process::Termination>(t: T) -> i32 {
    let c = t.report();
    if c == std::process::ExitCode::SUCCESS {
        return 0;
    }
    let d = format!("{:?}", c);
    let digits: String = d.chars().filter(|ch| ch.is_ascii_digit()).collect();
    digits.parse().unwrap_or(1)
}
