//! The repository's `roughenough-client` binary compiled as a library: `main()` is the real code;
//! `println!`/`eprintln!` are routed to the simulated process's stdout/stderr.
#![allow(dead_code)]

macro_rules! println {
    () => { dsim::stdout("\n") };
    ($($arg:tt)*) => {{ let mut s = format!($($arg)*); s.push('\n'); dsim::stdout(&s); }};
}

macro_rules! eprintln {
    () => { dsim::stderr("\n") };
    ($($arg:tt)*) => {{ let mut s = format!($($arg)*); s.push('\n'); dsim::stderr(&s); }};
}

include!(concat!(env!("OUT_DIR"), "/client_bin.rs"));

/// Run the real `main()` as the main thread of a simulated process.
pub fn verif_main() {
    main()
}
