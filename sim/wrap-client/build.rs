use std::{env, fs, path::Path};

fn main() {
    let src = "/repo/src/bin/roughenough-client.rs";
    println!("cargo:rerun-if-changed={}", src);
    let text = fs::read_to_string(src).expect("read client binary source");
    let out: String = text
        .lines()
        .map(|l| if l.trim_start().starts_with("//!") { l.replacen("//!", "// ", 1) } else { l.to_string() })
        .collect::<Vec<_>>()
        .join("\n");
    let dst = Path::new(&env::var("OUT_DIR").unwrap()).join("client_bin.rs");
    fs::write(dst, out).unwrap();
}
