//! The last seam: C-library entry points for time, defined in the executable so that they take
//! precedence over libc's. Code under test that reaches `clock_gettime` or `nanosleep` without
//! passing a source-level seam (a fully qualified `std::time::Instant::now()`, a dependency that
//! reads the clock, `std::thread::sleep`) still gets simulated time inside a simulated task; outside
//! a task (the driver, its watchdogs) the calls go to the kernel unchanged.

use std::os::raw::c_int;

unsafe fn real_clock_gettime(clk: libc::clockid_t, ts: *mut libc::timespec) -> c_int {
    libc::syscall(libc::SYS_clock_gettime, clk as libc::c_long, ts) as c_int
}

fn put(ts: *mut libc::timespec, ns: i128) {
    let ns = ns.max(0);
    unsafe {
        (*ts).tv_sec = (ns / 1_000_000_000) as libc::time_t;
        (*ts).tv_nsec = (ns % 1_000_000_000) as libc::c_long;
    }
}

fn is_realtime(clk: libc::clockid_t) -> bool {
    clk == libc::CLOCK_REALTIME || clk == libc::CLOCK_REALTIME_COARSE
}

#[no_mangle]
pub unsafe extern "C" fn clock_gettime(clk: libc::clockid_t, ts: *mut libc::timespec) -> c_int {
    if !ts.is_null() {
        let wanted = matches!(clk, libc::CLOCK_REALTIME | libc::CLOCK_REALTIME_COARSE | libc::CLOCK_MONOTONIC | libc::CLOCK_MONOTONIC_COARSE | libc::CLOCK_MONOTONIC_RAW | libc::CLOCK_BOOTTIME);
        if wanted {
            if let Some(ns) = crate::intercepted_clock(is_realtime(clk)) {
                put(ts, ns);
                return 0;
            }
        }
    }
    real_clock_gettime(clk, ts)
}

fn ts_ns(ts: *const libc::timespec) -> i128 {
    unsafe { (*ts).tv_sec as i128 * 1_000_000_000 + (*ts).tv_nsec as i128 }
}

#[no_mangle]
pub unsafe extern "C" fn nanosleep(req: *const libc::timespec, rem: *mut libc::timespec) -> c_int {
    if !req.is_null() {
        let ns = ts_ns(req).clamp(0, u64::MAX as i128 / 4) as u64;
        if crate::intercepted_sleep(ns) {
            if !rem.is_null() {
                put(rem, 0);
            }
            return 0;
        }
    }
    libc::syscall(libc::SYS_nanosleep, req, rem) as c_int
}

#[no_mangle]
pub unsafe extern "C" fn clock_nanosleep(clk: libc::clockid_t, flags: c_int, req: *const libc::timespec, rem: *mut libc::timespec) -> c_int {
    if !req.is_null() {
        let mut ns = ts_ns(req);
        let mut simulated = true;
        if flags & libc::TIMER_ABSTIME != 0 {
            match crate::intercepted_clock_peek(is_realtime(clk)) {
                Some(now) => ns -= now,
                None => simulated = false,
            }
        }
        if simulated {
            let ns = ns.clamp(0, u64::MAX as i128 / 4) as u64;
            if crate::intercepted_sleep(ns) {
                if !rem.is_null() && flags & libc::TIMER_ABSTIME == 0 {
                    put(rem, 0);
                }
                return 0;
            }
        }
    }
    // clock_nanosleep returns the error number instead of setting errno
    let r = libc::syscall(libc::SYS_clock_nanosleep, clk as libc::c_long, flags as libc::c_long, req, rem);
    if r == 0 {
        0
    } else {
        *libc::__errno_location()
    }
}

/// `exit`: inside a simulated task the simulated process ends; otherwise libc's `exit` runs.
#[no_mangle]
pub unsafe extern "C" fn exit(code: c_int) -> ! {
    crate::intercepted_exit(code);
    type ExitFn = unsafe extern "C" fn(c_int) -> !;
    let real = libc::dlsym(libc::RTLD_NEXT, b"exit\0".as_ptr() as *const libc::c_char);
    if real.is_null() {
        libc::_exit(code)
    }
    let f: ExitFn = std::mem::transmute(real);
    f(code)
}
