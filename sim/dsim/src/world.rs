use std::any::Any;
use std::cell::{Cell, RefCell};
use std::collections::{BTreeMap, VecDeque};
use std::hash::{Hash, Hasher};
use std::io;
use std::net::{IpAddr, Ipv4Addr, SocketAddr};
use std::panic::{self, AssertUnwindSafe};
use std::rc::Rc;
use std::time::Duration;

use corosensei::stack::DefaultStack;
use corosensei::{Coroutine, CoroutineResult, Yielder};

use crate::rng::Rng;
use crate::tape::Tape;

pub type Ns = u64;
pub type TaskId = usize;
pub type ProcId = usize;
pub type SockId = usize;
pub type PollId = usize;
pub type TimerId = usize;
pub type ListenId = usize;
pub type ConnId = usize;
pub type MutexId = usize;

pub const US: Ns = 1_000;
pub const MS: Ns = 1_000_000;
pub const SEC: Ns = 1_000_000_000;

pub const SIGINT: i32 = 2;
pub const SIGTERM: i32 = 15;

// ------------------------------------------------------------------------------------------
// configuration
// ------------------------------------------------------------------------------------------

/// Fault and buggify rates, in permille per opportunity. All zero = fault-free profile.
#[derive(Clone, Debug, Default)]
pub struct Faults {
    /// client -> server path
    pub c2s_drop: u32,
    pub c2s_dup: u32,
    pub c2s_delay: u32,
    /// a datagram that raises a readable edge and is discarded at receive time (bad checksum)
    pub c2s_phantom: u32,
    /// a datagram that arrives cut short (fragment loss with a lenient middlebox, MTU black hole)
    pub c2s_truncate: u32,
    /// server -> client path
    pub s2c_drop: u32,
    pub s2c_dup: u32,
    pub s2c_delay: u32,
    /// max extra path delay in microseconds when a delay fault fires
    pub delay_max_us: u32,
    /// `send_to` on a SUT socket fails (WouldBlock / PermissionDenied / Other)
    pub send_err: u32,
    /// `recv_from` on a SUT socket fails with a transient non-WouldBlock error
    pub recv_err: u32,
    /// `poll` returns early with zero events
    pub poll_spurious: u32,
    /// timer fires one tick late
    pub timer_late: u32,
    /// TCP accept fails transiently / write fails
    pub accept_err: u32,
    pub tcp_write_err: u32,
    /// a picked SUT task is postponed instead of run (slow / stalled node)
    pub postpone: u32,
    pub postpone_max_us: u32,
    /// in-memory file: create fails / write fails (disk full)
    pub file_create_err: u32,
    pub file_write_err: u32,
    /// a file create / write stalls (slow or busy disk) for up to disk_stall_max_ms
    pub disk_stall: u32,
    pub disk_stall_max_ms: u32,
}

#[derive(Clone, Debug, PartialEq)]
pub enum Strategy {
    Uniform,
    /// continue the current task with probability q/1000
    Sticky(u32),
    /// the task with this index (mod number of SUT tasks) is picked 1 time in 50 only
    StarveOne(u32),
}

#[derive(Clone, Debug, PartialEq)]
pub enum Distribution {
    /// stable hash of (src ip, src port) — what Linux does
    FlowHash(u64),
    /// arbitrary member per datagram
    Arbitrary,
    /// members in turn (every member of a group is certain to receive traffic)
    RoundRobin,
}

#[derive(Clone, Debug)]
pub struct Cfg {
    pub horizon: Ns,
    pub step_cap: u64,
    /// wall clock (ns since the Unix epoch) at simulated time 0
    pub wall_start: i128,
    /// service-time scale in permille (1000 = nominal)
    pub cost_scale: u64,
    pub faults: Faults,
    /// no fault fires at or after this simulated time
    pub faults_until: Ns,
    pub strategy: Strategy,
    pub distribution: Distribution,
    /// base one-way path latency in microseconds
    pub latency_us: u64,
    pub latency_jitter_us: u64,
    /// default receive-queue capacity (datagrams) of a new socket
    pub rcv_cap: usize,
    /// what `available_parallelism` reports
    pub cores: usize,
    /// seeds of the non-tape streams
    pub entropy_seed: u64,
    pub aux_seed: u64,
    pub stack_size: usize,
    /// a newly spawned thread starts running after a seeded latency of up to this many
    /// microseconds (thread creation is not instantaneous: the spawner usually runs on first)
    pub spawn_latency_us: u64,
}

impl Default for Cfg {
    fn default() -> Self {
        Cfg {
            horizon: 10 * SEC,
            step_cap: 2_000_000,
            wall_start: 1_700_000_000i128 * SEC as i128,
            cost_scale: 1000,
            faults: Faults::default(),
            faults_until: u64::MAX,
            strategy: Strategy::Uniform,
            distribution: Distribution::FlowHash(0),
            latency_us: 50,
            latency_jitter_us: 20,
            rcv_cap: 512,
            cores: 4,
            entropy_seed: 1,
            aux_seed: 2,
            stack_size: 1 << 20,
            spawn_latency_us: 0,
        }
    }
}

// ------------------------------------------------------------------------------------------
// history
// ------------------------------------------------------------------------------------------

pub type Bytes = Rc<Vec<u8>>;

#[derive(Clone, Debug, Hash, PartialEq)]
pub enum Ev {
    ProcStart { proc: ProcId, name: String, argv: Vec<String>, sut: bool },
    ProcExit { proc: ProcId, code: i32, how: &'static str },
    TaskSpawn { task: TaskId, proc: ProcId, name: String },
    TaskEnd { task: TaskId, how: String },
    Panic { task: TaskId, proc: ProcId, msg: String, loc: String },
    UdpBind { sock: SockId, proc: ProcId, addr: SocketAddr, reuse_port: bool, ok: bool },
    UdpClose { sock: SockId },
    UdpSend { sock: SockId, src: SocketAddr, dst: SocketAddr, dgram: u64, data: Bytes, ok: bool, err: &'static str },
    UdpRecv { sock: SockId, src: SocketAddr, dgram: u64, data: Bytes, truncated_to: usize },
    UdpRecvEmpty { sock: SockId },
    UdpRecvErr { sock: SockId },
    Deliver { dgram: u64, sock: SockId, phantom: bool },
    Lost { dgram: u64, why: &'static str },
    ClockRead { wall_ns: i128 },
    WallStep { delta_ns: i128 },
    PollRet { poll: PollId, tokens: Vec<usize>, spurious: bool },
    TimerNew { timer: TimerId },
    TimerArm { timer: TimerId, delay_ns: Ns, fire_at: Ns },
    TimerFire { timer: TimerId },
    TcpListen { listener: ListenId, proc: ProcId, addr: SocketAddr, ok: bool },
    TcpConnect { conn: ConnId, src: SocketAddr, dst: SocketAddr, refused: bool },
    TcpAccept { listener: ListenId, conn: Option<ConnId>, err: &'static str },
    TcpWrite { conn: ConnId, data: Bytes, ok: bool },
    TcpShutdown { conn: ConnId },
    Log { proc: ProcId, level: u8, target: String, msg: String },
    Stdout { proc: ProcId, text: String },
    Stderr { proc: ProcId, text: String },
    Signal { proc: ProcId, sig: i32, handled: bool },
    CtrlcRegistered { proc: ProcId },
    Entropy { consumer: &'static str, bytes: Bytes },
    MutexLock { mutex: MutexId, poisoned: bool },
    MutexUnlock { mutex: MutexId, poison: bool },
    Sleep { ns: Ns },
    /// time a file operation takes (base cost plus an injected stall): not a sleep the program asked for
    DiskWait { ns: Ns },
    FileCreate { path: String, ok: bool },
    FileWrite { path: String, n: usize, ok: bool },
    FileOpen { path: String, ok: bool },
    Fault { kind: &'static str },
    Note { what: String },
}

impl Ev {
    /// coarse class used for the schedule fingerprint
    fn class(&self) -> u32 {
        match self {
            Ev::UdpSend { ok, .. } => 10 + *ok as u32,
            Ev::UdpRecv { .. } => 12,
            Ev::UdpRecvEmpty { .. } => 13,
            Ev::UdpRecvErr { .. } => 14,
            Ev::PollRet { tokens, .. } => 20 + tokens.len() as u32,
            Ev::ClockRead { .. } => 30,
            Ev::TimerArm { .. } => 31,
            Ev::TcpAccept { conn, .. } => 40 + conn.is_some() as u32,
            Ev::TcpWrite { .. } => 42,
            Ev::MutexLock { .. } => 50,
            Ev::TaskSpawn { .. } => 60,
            Ev::TaskEnd { .. } => 61,
            Ev::ProcExit { .. } => 62,
            Ev::Panic { .. } => 63,
            Ev::Signal { .. } => 64,
            Ev::Sleep { .. } => 65,
            Ev::DiskWait { .. } => 66,
            _ => 0,
        }
    }
}

#[derive(Clone, Debug)]
pub struct Rec {
    pub seq: u64,
    /// scheduler step count when the event was recorded
    pub step: u64,
    pub t: Ns,
    pub task: Option<TaskId>,
    pub ev: Ev,
}

// ------------------------------------------------------------------------------------------
// kernel objects
// ------------------------------------------------------------------------------------------

#[derive(Clone, Debug, PartialEq)]
pub enum Wait {
    Poll(PollId),
    Recv(SockId),
    Join(TaskId),
    Mutex(MutexId),
    Conn(ConnId),
    Sleep,
}

#[derive(Clone, Debug, PartialEq)]
pub enum TState {
    Runnable,
    Blocked { cond: Wait, deadline: Option<Ns> },
    Done,
}

#[derive(Clone, Debug, PartialEq)]
pub enum TaskEnd {
    Returned,
    Panicked(String),
    Exited(i32),
    Killed,
}

#[derive(Debug)]
pub struct Task {
    pub id: TaskId,
    pub name: String,
    pub proc: ProcId,
    pub is_main: bool,
    pub state: TState,
    pub ready_at: Ns,
    pub end: Option<TaskEnd>,
    pub kill_pending: bool,
    pub started: bool,
    pub ops: u64,
    /// > 0 while the task is inside an interposed C-library call (see interpose.rs): frames that
    /// cannot be unwound through, so the task is abandoned rather than unwound when killed
    pub foreign_depth: u32,
    /// a signal arrived while the task was blocked in poll: epoll_wait returns EINTR
    pub eintr: bool,
}

pub struct Proc {
    pub id: ProcId,
    pub name: String,
    pub argv: Vec<String>,
    pub env: BTreeMap<String, String>,
    pub sut: bool,
    pub log_level: log::LevelFilter,
    pub handler: Option<Rc<dyn Fn()>>,
    pub exit: Option<i32>,
    pub exit_how: &'static str,
    pub exit_at: Option<Ns>,
    pub tasks: Vec<TaskId>,
    pub main_task: Option<TaskId>,
    pub stdout: String,
    pub stderr: String,
    /// the process is out of file descriptors: accept() fails with EMFILE and the connection
    /// stays in the accept queue (a failing system call that persists until lifted)
    pub fd_exhausted: bool,
}

#[derive(Clone, Debug)]
pub struct Dgram {
    pub id: u64,
    pub src: SocketAddr,
    pub dst: SocketAddr,
    pub data: Bytes,
    pub phantom: bool,
}

#[derive(Debug)]
pub struct UdpSock {
    pub id: SockId,
    pub proc: ProcId,
    pub addr: Option<SocketAddr>,
    pub reuse_port: bool,
    pub queue: VecDeque<Dgram>,
    pub cap: usize,
    pub edge: bool,
    pub edge_at: Ns,
    pub closed: bool,
    pub read_timeout: Option<Duration>,
    pub delivered: u64,
    /// real (non-phantom) datagrams still queued when the run ended, before teardown closed the
    /// socket; None if the socket was closed earlier by its owner
    pub unread_at_end: Option<usize>,
}

#[derive(Debug, Default)]
pub struct PollObj {
    pub regs: Vec<Reg>,
}

/// One registration: edge-triggered by default; `level`: ready whenever something is queued;
/// `oneshot`: disarmed after it has fired until it is registered again.
#[derive(Clone, Copy, Debug)]
pub struct Reg {
    pub src: Source,
    pub token: usize,
    pub level: bool,
    pub oneshot: bool,
    pub armed: bool,
}

#[derive(Clone, Copy, Debug, PartialEq, Eq, Hash)]
pub enum Source {
    Udp(SockId),
    Timer(TimerId),
    Listener(ListenId),
    /// something that can be registered but never becomes ready (e.g. an accepted connection
    /// whose peer never sends)
    Never,
}

#[derive(Debug)]
pub struct TimerObj {
    pub created: Ns,
    pub edge: bool,
    pub edge_at: Ns,
    pub arms: u64,
    pub fires: u64,
    /// timeouts armed up to this generation have been cancelled
    pub cancelled_upto: u64,
}

#[derive(Debug)]
pub struct Listener {
    pub proc: ProcId,
    pub addr: SocketAddr,
    pub reuse_port: bool,
    pub queue: VecDeque<ConnId>,
    pub edge: bool,
    pub edge_at: Ns,
    pub closed: bool,
}

#[derive(Debug)]
pub struct Conn {
    pub src: SocketAddr,
    pub dst: SocketAddr,
    pub connected_at: Ns,
    pub accepted_at: Option<Ns>,
    pub accepted_by: Option<TaskId>,
    pub written: Vec<u8>,
    pub shutdown_at: Option<Ns>,
    pub refused: bool,
    /// the peer has reset the connection (SO_LINGER 0 close) before the acceptor writes: accept
    /// succeeds, every write fails with ECONNRESET
    pub peer_reset: bool,
}

#[derive(Debug, Default)]
pub struct MutexObj {
    pub locked_by: Option<TaskId>,
    pub poisoned: bool,
}

#[derive(Debug, Default, Clone)]
pub struct VFile {
    pub data: Vec<u8>,
}

enum Event {
    Deliver(Dgram),
    TimerFire(TimerId, u64),
    Call(Box<dyn FnOnce()>),
}

#[derive(Clone, Copy, Debug)]
pub enum Op {
    RecvHit,
    RecvEmpty,
    Send,
    ClockRead,
    Poll,
    Small,
    /// drawing from the system's entropy source (and what is usually done with it: making a key)
    Entropy,
}

#[derive(Clone, Debug, PartialEq)]
pub enum Outcome {
    Horizon,
    Quiescent,
    StepCap,
    Stopped,
}

// ------------------------------------------------------------------------------------------
// the world
// ------------------------------------------------------------------------------------------

pub struct World {
    pub cfg: Cfg,
    pub now: Ns,
    pub wall_adj: i128,
    /// a stuck wall clock (VM pause, test of exact sub-second edges): reads return this value
    pub wall_frozen: Option<i128>,
    seq: u64,
    ev_seq: u64,
    events: BTreeMap<(Ns, u64), Event>,
    pub tasks: Vec<Task>,
    pub procs: Vec<Proc>,
    pub socks: Vec<UdpSock>,
    pub polls: Vec<PollObj>,
    pub timers: Vec<TimerObj>,
    pub listeners: Vec<Listener>,
    pub conns: Vec<Conn>,
    pub mutexes: Vec<MutexObj>,
    pub vfs: BTreeMap<String, VFile>,
    pub tape: Tape,
    pub entropy_rng: Rng,
    pub aux_rng: Rng,
    pub history: Vec<Rec>,
    pub hist_hash: u64,
    pub fingerprint: u64,
    pub current: Option<TaskId>,
    pub last_run: Option<TaskId>,
    spawn_q: Vec<(TaskId, Box<dyn FnOnce()>)>,
    pub next_dgram: u64,
    pub next_port: u16,
    rr: u64,
    step_triggers: BTreeMap<u64, Vec<Box<dyn FnOnce()>>>,
    pub steps: u64,
    pub stop: bool,
    pub fault_fired: BTreeMap<&'static str, u64>,
    pub fault_offered: BTreeMap<&'static str, u64>,
    pub probes: BTreeMap<&'static str, u64>,
    /// knobs readable by hooks (H7) — e.g. "max_clients"
    pub knobs: BTreeMap<String, i64>,
    /// sockets of the next bind in this proc get this capacity (else cfg.rcv_cap)
    pub outcome: Option<Outcome>,
}

/// A 128-byte slot (shared memory set up by the driver before it forks an execution) into which
/// the name of the task being resumed and the step count are mirrored, so that the parent can say
/// which task an execution that never came back was spinning in. Layout: [len u8][name ..119][steps u64 le].
pub static SPIN_SLOT: std::sync::atomic::AtomicPtr<u8> = std::sync::atomic::AtomicPtr::new(std::ptr::null_mut());

thread_local! {
    static WORLD: RefCell<Option<World>> = const { RefCell::new(None) };
    static YIELDER: Cell<*const Yielder<Resume, ()>> = const { Cell::new(std::ptr::null()) };
    static YIELDERS: RefCell<Vec<*const Yielder<Resume, ()>>> = const { RefCell::new(Vec::new()) };
    static STACKS: RefCell<Vec<DefaultStack>> = const { RefCell::new(Vec::new()) };
}

enum Resume {
    Go,
    Kill,
}

struct Killed;
struct ExitPayload(#[allow(dead_code)] i32);

pub fn install(w: World) {
    install_panic_hook();
    WORLD.with(|c| {
        let mut b = c.borrow_mut();
        assert!(b.is_none(), "a world is already installed on this thread");
        *b = Some(w);
    });
}

pub fn take() -> World {
    WORLD.with(|c| c.borrow_mut().take().expect("no world installed"))
}

pub fn is_installed() -> bool {
    WORLD.with(|c| c.try_borrow().map(|b| b.is_some()).unwrap_or(true))
}

pub fn with<R>(f: impl FnOnce(&mut World) -> R) -> R {
    WORLD.with(|c| {
        let mut b = c.borrow_mut();
        f(b.as_mut().expect("seam call outside a simulated world"))
    })
}

pub fn try_with<R>(f: impl FnOnce(&mut World) -> R) -> Option<R> {
    WORLD.with(|c| match c.try_borrow_mut() {
        Ok(mut b) => b.as_mut().map(f),
        Err(_) => None,
    })
}

fn install_panic_hook() {
    use std::sync::Once;
    static ONCE: Once = Once::new();
    ONCE.call_once(|| {
        let default = panic::take_hook();
        panic::set_hook(Box::new(move |info| {
            let msg = if let Some(s) = info.payload().downcast_ref::<&str>() {
                s.to_string()
            } else if let Some(s) = info.payload().downcast_ref::<String>() {
                s.clone()
            } else {
                "<non-string panic payload>".to_string()
            };
            let loc = info.location().map(|l| format!("{}:{}", l.file(), l.line())).unwrap_or_default();
            let handled = try_with(|w| {
                if let Some(t) = w.current {
                    let proc = w.tasks[t].proc;
                    // what the default hook would print on the process's stderr
                    let name = w.tasks[t].name.clone();
                    let text = format!("thread '{}' panicked at {}:\n{}\n", name, loc, msg);
                    w.procs[proc].stderr.push_str(&text);
                    w.record(Ev::Panic { task: t, proc, msg: msg.clone(), loc: loc.clone() });
                    true
                } else {
                    false
                }
            })
            .unwrap_or(false);
            if !handled {
                default(info);
            }
        }));
    });
}

impl World {
    pub fn new(cfg: Cfg, tape: Tape) -> World {
        let entropy_rng = Rng::derive(cfg.entropy_seed, "entropy");
        let aux_rng = Rng::derive(cfg.aux_seed, "aux");
        World {
            cfg,
            now: 0,
            wall_adj: 0,
            wall_frozen: None,
            seq: 0,
            ev_seq: 0,
            events: BTreeMap::new(),
            tasks: Vec::new(),
            procs: Vec::new(),
            socks: Vec::new(),
            polls: Vec::new(),
            timers: Vec::new(),
            listeners: Vec::new(),
            conns: Vec::new(),
            mutexes: Vec::new(),
            vfs: BTreeMap::new(),
            tape,
            entropy_rng,
            aux_rng,
            history: Vec::new(),
            hist_hash: 0x1234_5678_9abc_def0,
            fingerprint: 0xcbf2_9ce4_8422_2325,
            current: None,
            last_run: None,
            spawn_q: Vec::new(),
            next_dgram: 1,
            next_port: 40000,
            rr: 0,
            step_triggers: BTreeMap::new(),
            steps: 0,
            stop: false,
            fault_fired: BTreeMap::new(),
            fault_offered: BTreeMap::new(),
            probes: BTreeMap::new(),
            knobs: BTreeMap::new(),
            outcome: None,
        }
    }

    // ---------------- history ----------------

    pub fn record(&mut self, ev: Ev) {
        self.seq += 1;
        let mut h = std::collections::hash_map::DefaultHasher::new();
        self.hist_hash.hash(&mut h);
        self.seq.hash(&mut h);
        self.now.hash(&mut h);
        self.current.hash(&mut h);
        ev.hash(&mut h);
        self.hist_hash = h.finish();
        let class = ev.class();
        if class != 0 {
            let mut f = self.fingerprint;
            for v in [self.current.map(|t| t as u64 + 1).unwrap_or(0), class as u64] {
                f ^= v;
                f = f.wrapping_mul(0x0000_0100_0000_01B3);
            }
            self.fingerprint = f;
        }
        self.history.push(Rec { seq: self.seq, step: self.steps, t: self.now, task: self.current, ev });
    }

    pub fn probe(&mut self, name: &'static str) {
        *self.probes.entry(name).or_insert(0) += 1;
    }

    pub fn note(&mut self, what: impl Into<String>) {
        self.record(Ev::Note { what: what.into() });
    }

    // ---------------- choices and faults ----------------

    pub fn faults_active(&self) -> bool {
        self.now < self.cfg.faults_until
    }

    /// A cooperative fault point: fires with the configured rate while faults are active.
    pub fn fault(&mut self, kind: &'static str, permille: u32) -> bool {
        if permille == 0 || !self.faults_active() {
            return false;
        }
        *self.fault_offered.entry(kind).or_insert(0) += 1;
        let fired = self.tape.chance(permille);
        if fired {
            *self.fault_fired.entry(kind).or_insert(0) += 1;
            self.record(Ev::Fault { kind });
        }
        fired
    }

    pub fn choose(&mut self, n: u32) -> u32 {
        self.tape.uniform(n)
    }

    // ---------------- time ----------------

    pub fn wall_now(&self) -> i128 {
        if let Some(f) = self.wall_frozen {
            return f.max(0);
        }
        let w = self.cfg.wall_start + self.now as i128 + self.wall_adj;
        w.max(0)
    }

    /// Freeze the wall clock at `wall_ns` (None: resume from the frozen value).
    pub fn wall_freeze(&mut self, wall_ns: Option<i128>) {
        match wall_ns {
            Some(v) => {
                self.wall_set(v);
                self.wall_frozen = Some(v.max(0));
            }
            None => {
                if let Some(f) = self.wall_frozen.take() {
                    self.wall_set(f);
                }
            }
        }
    }

    pub fn wall_step(&mut self, delta_ns: i128) {
        self.wall_adj += delta_ns;
        // never before the epoch
        let w = self.cfg.wall_start + self.now as i128 + self.wall_adj;
        if w < 0 {
            self.wall_adj -= w;
        }
        self.record(Ev::WallStep { delta_ns });
    }

    pub fn wall_set(&mut self, wall_ns: i128) {
        let cur = self.cfg.wall_start + self.now as i128 + self.wall_adj;
        self.wall_step(wall_ns - cur);
    }

    fn cost(&mut self, op: Op) -> Ns {
        let base: Ns = match op {
            Op::RecvHit => 2000,
            Op::RecvEmpty => 500,
            Op::Send => 3000,
            Op::ClockRead => 30_000,
            Op::Poll => 1000,
            Op::Small => 200,
            Op::Entropy => 20_000,
        };
        // +-50 % jitter from the auxiliary stream (not on the tape: it is a function of aux_seed)
        let j = 500 + self.aux_rng.below(1001);
        (base * j / 1000) * self.cfg.cost_scale / 1000
    }

    pub fn schedule(&mut self, at: Ns, f: Box<dyn FnOnce()>) {
        self.ev_seq += 1;
        let at = at.max(self.now);
        self.events.insert((at, self.ev_seq), Event::Call(f));
    }

    /// Schedule `f` to run in scheduler context (no current task) at simulated time `at`.
    pub fn at(&mut self, at: Ns, f: impl FnOnce() + 'static) {
        self.schedule(at, Box::new(f));
    }

    /// Schedule `f` to run in scheduler context when the scheduler has taken `step` steps.
    pub fn at_step(&mut self, step: u64, f: impl FnOnce() + 'static) {
        self.step_triggers.entry(step).or_default().push(Box::new(f));
    }

    // ---------------- processes and tasks ----------------

    pub fn new_proc(&mut self, name: &str, argv: Vec<String>, env: BTreeMap<String, String>, sut: bool) -> ProcId {
        let id = self.procs.len();
        self.procs.push(Proc {
            id,
            name: name.to_string(),
            argv: argv.clone(),
            env,
            sut,
            log_level: log::LevelFilter::Off,
            handler: None,
            exit: None,
            exit_how: "",
            exit_at: None,
            tasks: Vec::new(),
            main_task: None,
            stdout: String::new(),
            stderr: String::new(),
            fd_exhausted: false,
        });
        self.record(Ev::ProcStart { proc: id, name: name.to_string(), argv, sut });
        id
    }

    pub fn new_task(&mut self, proc: ProcId, name: &str, is_main: bool, f: Box<dyn FnOnce()>) -> TaskId {
        let id = self.tasks.len();
        let latency = if is_main || self.cfg.spawn_latency_us == 0 { 0 } else { self.aux_rng.below(self.cfg.spawn_latency_us * US + 1) };
        self.tasks.push(Task {
            id,
            name: name.to_string(),
            proc,
            is_main,
            state: TState::Runnable,
            ready_at: self.now + latency,
            end: None,
            kill_pending: false,
            started: false,
            ops: 0, foreign_depth: 0, eintr: false });
        self.procs[proc].tasks.push(id);
        if is_main {
            self.procs[proc].main_task = Some(id);
        }
        self.record(Ev::TaskSpawn { task: id, proc, name: name.to_string() });
        if self.procs[proc].exit.is_some() {
            // spawning into a dead process: the task never runs
            self.tasks[id].state = TState::Done;
            self.tasks[id].end = Some(TaskEnd::Killed);
        } else {
            self.spawn_q.push((id, f));
        }
        id
    }

    /// Start a simulated process whose main thread runs `main`.
    pub fn spawn_proc(
        &mut self,
        name: &str,
        argv: Vec<String>,
        env: BTreeMap<String, String>,
        sut: bool,
        main: impl FnOnce() + 'static,
    ) -> ProcId {
        let p = self.new_proc(name, argv, env, sut);
        self.new_task(p, "main", true, Box::new(main));
        p
    }

    pub fn cur_proc(&self) -> ProcId {
        self.tasks[self.current.expect("no current task")].proc
    }

    pub fn cur_proc_opt(&self) -> Option<ProcId> {
        self.current.map(|t| self.tasks[t].proc)
    }

    pub fn proc_alive(&self, p: ProcId) -> bool {
        self.procs[p].exit.is_none()
    }

    pub fn live_tasks(&self, p: ProcId) -> Vec<TaskId> {
        self.procs[p].tasks.iter().copied().filter(|&t| self.tasks[t].state != TState::Done).collect()
    }

    /// Terminate a process: record status, close its sockets and listeners, mark its tasks.
    pub fn terminate_proc(&mut self, p: ProcId, code: i32, how: &'static str) {
        if self.procs[p].exit.is_some() {
            return;
        }
        self.procs[p].exit = Some(code);
        self.procs[p].exit_how = how;
        self.procs[p].exit_at = Some(self.now);
        self.record(Ev::ProcExit { proc: p, code, how });
        for s in 0..self.socks.len() {
            if self.socks[s].proc == p && !self.socks[s].closed {
                self.udp_close(s);
            }
        }
        for l in 0..self.listeners.len() {
            if self.listeners[l].proc == p {
                self.listeners[l].closed = true;
            }
        }
        let cur = self.current;
        for &t in &self.procs[p].tasks.clone() {
            if Some(t) != cur && self.tasks[t].state != TState::Done {
                self.tasks[t].kill_pending = true;
            }
        }
    }

    pub fn signal(&mut self, p: ProcId, sig: i32) -> Option<Rc<dyn Fn()>> {
        if self.procs[p].exit.is_some() {
            return None;
        }
        let h = self.procs[p].handler.clone();
        self.record(Ev::Signal { proc: p, sig, handled: h.is_some() });
        // a signal handled by the process interrupts the system call of whichever thread the
        // kernel picks to run the handler (and, after a stop / continue, of every thread): each
        // task of the process that is blocked in poll may see EINTR (a seeded choice per task)
        if h.is_some() {
            let blocked: Vec<TaskId> = self.tasks.iter().filter(|t| t.proc == p && matches!(t.state, TState::Blocked { cond: Wait::Poll(_), .. })).map(|t| t.id).collect();
            for t in blocked {
                if self.choose(2) == 1 {
                    self.tasks[t].eintr = true;
                    self.tasks[t].state = TState::Runnable;
                    *self.fault_fired.entry("poll_eintr").or_insert(0) += 1;
                }
            }
        }
        if h.is_none() {
            // default action: terminate
            self.terminate_proc(p, 128 + sig, "signal");
        }
        h
    }

    // ---------------- UDP ----------------

    pub fn udp_socket(&mut self, proc: ProcId) -> SockId {
        let id = self.socks.len();
        let cap = self.cfg.rcv_cap;
        self.socks.push(UdpSock {
            id,
            proc,
            addr: None,
            reuse_port: false,
            queue: VecDeque::new(),
            cap,
            edge: false,
            edge_at: 0,
            closed: false,
            read_timeout: None,
            delivered: 0,
            unread_at_end: None,
        });
        id
    }

    fn members(&self, addr: &SocketAddr) -> Vec<SockId> {
        self.socks
            .iter()
            .filter(|s| !s.closed)
            .filter(|s| match s.addr {
                Some(a) => a.port() == addr.port() && (a.ip() == addr.ip() || a.ip().is_unspecified() || addr.ip().is_unspecified()),
                None => false,
            })
            .map(|s| s.id)
            .collect()
    }

    pub fn udp_bind(&mut self, sock: SockId, mut addr: SocketAddr) -> io::Result<()> {
        if addr.port() == 0 {
            loop {
                let p = self.next_port;
                self.next_port = if self.next_port == 60999 { 40000 } else { self.next_port + 1 };
                addr.set_port(p);
                if self.members(&addr).is_empty() {
                    break;
                }
            }
        }
        let existing = self.members(&addr);
        let reuse = self.socks[sock].reuse_port;
        let ok = existing.is_empty() || (reuse && existing.iter().all(|&s| self.socks[s].reuse_port));
        let proc = self.socks[sock].proc;
        self.record(Ev::UdpBind { sock, proc, addr, reuse_port: reuse, ok });
        if ok {
            self.socks[sock].addr = Some(addr);
            Ok(())
        } else {
            Err(io::Error::new(io::ErrorKind::AddrInUse, "Address already in use (os error 98)"))
        }
    }

    pub fn udp_close(&mut self, sock: SockId) {
        if !self.socks[sock].closed {
            self.socks[sock].closed = true;
            self.socks[sock].queue.clear();
            self.record(Ev::UdpClose { sock });
        }
    }

    fn src_for(&self, sock: SockId, dst: &SocketAddr) -> SocketAddr {
        let a = self.socks[sock].addr.unwrap_or_else(|| SocketAddr::new(IpAddr::V4(Ipv4Addr::UNSPECIFIED), 0));
        if a.ip().is_unspecified() {
            let ip = if dst.ip().is_loopback() { IpAddr::V4(Ipv4Addr::LOCALHOST) } else { IpAddr::V4(Ipv4Addr::new(192, 0, 2, 1)) };
            SocketAddr::new(ip, a.port())
        } else {
            a
        }
    }

    /// The effect of a `send_to` (no scheduling point here; callers yield first).
    pub fn udp_send(&mut self, sock: SockId, data: &[u8], dst: SocketAddr) -> io::Result<usize> {
        let proc = self.socks[sock].proc;
        let sut = self.procs[proc].sut;
        let src = self.src_for(sock, &dst);
        let id = self.next_dgram;
        self.next_dgram += 1;
        let bytes: Bytes = Rc::new(data.to_vec());
        if self.socks[sock].closed {
            self.record(Ev::UdpSend { sock, src, dst, dgram: id, data: bytes, ok: false, err: "closed" });
            return Err(io::Error::new(io::ErrorKind::NotConnected, "socket closed"));
        }
        if dst.port() == 0 {
            // what Linux does for a destination port of 0
            self.record(Ev::UdpSend { sock, src, dst, dgram: id, data: bytes, ok: false, err: "InvalidInput" });
            return Err(io::Error::new(io::ErrorKind::InvalidInput, "Invalid argument (os error 22)"));
        }
        if sut && self.fault("send_err", self.cfg.faults.send_err) {
            let (kind, name): (io::ErrorKind, &'static str) = match self.choose(3) {
                0 => (io::ErrorKind::WouldBlock, "WouldBlock"),
                1 => (io::ErrorKind::PermissionDenied, "PermissionDenied"),
                _ => (io::ErrorKind::Other, "NoBufferSpace"),
            };
            self.record(Ev::UdpSend { sock, src, dst, dgram: id, data: bytes, ok: false, err: name });
            return Err(io::Error::new(kind, name));
        }
        self.record(Ev::UdpSend { sock, src, dst, dgram: id, data: bytes.clone(), ok: true, err: "" });
        let f = self.cfg.faults.clone();
        let (drop, dup, delay, phantom) = if sut { (f.s2c_drop, f.s2c_dup, f.s2c_delay, 0) } else { (f.c2s_drop, f.c2s_dup, f.c2s_delay, f.c2s_phantom) };
        let (kd, ku, kl) = if sut { ("s2c_drop", "s2c_dup", "s2c_delay") } else { ("c2s_drop", "c2s_dup", "c2s_delay") };
        if self.fault(kd, drop) {
            self.record(Ev::Lost { dgram: id, why: "path_drop" });
            return Ok(data.len());
        }
        let mut lat = self.cfg.latency_us * US;
        if self.cfg.latency_jitter_us > 0 {
            lat += self.aux_rng.below(self.cfg.latency_jitter_us * US + 1);
        }
        if self.fault(kl, delay) {
            let extra = self.choose(f.delay_max_us.max(1)) as u64 * US;
            lat += extra;
        }
        let is_phantom = self.fault("c2s_phantom", phantom);
        let mut bytes = bytes;
        if !sut && !bytes.is_empty() && self.fault("c2s_truncate", f.c2s_truncate) {
            let keep = self.choose(bytes.len() as u32) as usize;
            bytes = Rc::new(bytes[..keep].to_vec());
        }
        let d = Dgram { id, src, dst, data: bytes, phantom: is_phantom };
        let at = self.now + lat;
        self.ev_seq += 1;
        self.events.insert((at, self.ev_seq), Event::Deliver(d.clone()));
        if self.fault(ku, dup) {
            let at2 = at + 1 + self.aux_rng.below(200 * US);
            self.ev_seq += 1;
            self.events.insert((at2, self.ev_seq), Event::Deliver(d));
        }
        Ok(data.len())
    }

    fn deliver(&mut self, d: Dgram) {
        let group = self.members(&d.dst);
        if group.is_empty() {
            self.record(Ev::Lost { dgram: d.id, why: "no_socket" });
            return;
        }
        let pick = if group.len() == 1 {
            group[0]
        } else {
            match self.cfg.distribution {
                Distribution::FlowHash(salt) => {
                    let mut h = std::collections::hash_map::DefaultHasher::new();
                    salt.hash(&mut h);
                    d.src.hash(&mut h);
                    group[(h.finish() % group.len() as u64) as usize]
                }
                Distribution::Arbitrary => group[self.choose(group.len() as u32) as usize],
                Distribution::RoundRobin => {
                    self.rr += 1;
                    group[self.rr as usize % group.len()]
                }
            }
        };
        let s = &mut self.socks[pick];
        if s.queue.len() >= s.cap {
            self.record(Ev::Lost { dgram: d.id, why: "rcv_overflow" });
            *self.fault_fired.entry("rcv_overflow").or_insert(0) += 1;
            return;
        }
        s.edge = true;
        s.edge_at = self.now;
        s.delivered += 1;
        let (id, ph) = (d.id, d.phantom);
        s.queue.push_back(d);
        self.record(Ev::Deliver { dgram: id, sock: pick, phantom: ph });
    }

    /// Non-blocking receive effect. Phantom datagrams are discarded silently.
    pub fn udp_try_recv(&mut self, sock: SockId, buf: &mut [u8]) -> io::Result<(usize, SocketAddr)> {
        let proc = self.socks[sock].proc;
        if self.procs[proc].sut && !self.socks[sock].queue.is_empty() && self.fault("recv_err", self.cfg.faults.recv_err) {
            self.record(Ev::UdpRecvErr { sock });
            return Err(io::Error::new(io::ErrorKind::Interrupted, "injected transient receive error"));
        }
        loop {
            match self.socks[sock].queue.pop_front() {
                Some(d) if d.phantom => continue,
                Some(d) => {
                    let n = d.data.len().min(buf.len());
                    buf[..n].copy_from_slice(&d.data[..n]);
                    self.record(Ev::UdpRecv { sock, src: d.src, dgram: d.id, data: d.data.clone(), truncated_to: n });
                    return Ok((n, d.src));
                }
                None => {
                    self.record(Ev::UdpRecvEmpty { sock });
                    return Err(io::Error::new(io::ErrorKind::WouldBlock, "Resource temporarily unavailable (os error 11)"));
                }
            }
        }
    }

    // ---------------- poll / timers ----------------

    pub fn poll_new(&mut self) -> PollId {
        self.polls.push(PollObj::default());
        self.polls.len() - 1
    }

    pub fn poll_register(&mut self, poll: PollId, src: Source, token: usize) {
        self.poll_register_opts(poll, src, token, false, false)
    }

    pub fn poll_deregister(&mut self, poll: PollId, src: Source) {
        self.polls[poll].regs.retain(|r| r.src != src);
    }

    /// `reregister`: replaces the registration of `src` (re-arms a oneshot one)
    pub fn poll_reregister(&mut self, poll: PollId, src: Source, token: usize, level: bool, oneshot: bool) {
        self.poll_deregister(poll, src);
        self.poll_register_opts(poll, src, token, level, oneshot);
    }

    pub fn poll_register_opts(&mut self, poll: PollId, src: Source, token: usize, level: bool, oneshot: bool) {
        // data already queued at registration time raises an edge (measured on epoll)
        match src {
            Source::Udp(s) => {
                if !self.socks[s].queue.is_empty() {
                    self.socks[s].edge = true;
                }
            }
            Source::Listener(l) => {
                if !self.listeners[l].queue.is_empty() {
                    self.listeners[l].edge = true;
                }
            }
            Source::Timer(_) | Source::Never => {}
        }
        self.polls[poll].regs.push(Reg { src, token, level, oneshot, armed: true });
    }

    fn source_fires(&self, r: &Reg) -> Option<Ns> {
        if !r.armed {
            return None;
        }
        match r.src {
            Source::Udp(s) => {
                let k = &self.socks[s];
                ((k.edge || r.level) && !k.queue.is_empty() && !k.closed).then_some(k.edge_at)
            }
            Source::Timer(t) => {
                let k = &self.timers[t];
                k.edge.then_some(k.edge_at)
            }
            Source::Listener(l) => {
                let k = &self.listeners[l];
                ((k.edge || r.level) && !k.queue.is_empty() && !k.closed).then_some(k.edge_at)
            }
            Source::Never => None,
        }
    }

    fn poll_ready(&self, poll: PollId) -> bool {
        self.polls[poll].regs.iter().any(|r| self.source_fires(r).is_some())
    }

    /// Collect (and clear) the edges that fire now, in order of readiness.
    pub fn poll_collect(&mut self, poll: PollId, max: usize) -> Vec<usize> {
        let mut ready: Vec<(Ns, usize, Source, usize)> = Vec::new();
        for (i, r) in self.polls[poll].regs.iter().enumerate() {
            if let Some(at) = self.source_fires(r) {
                ready.push((at, i, r.src, r.token));
            }
        }
        ready.sort_by_key(|r| (r.0, r.1));
        ready.truncate(max);
        for (_, i, _, _) in &ready {
            if self.polls[poll].regs[*i].oneshot {
                self.polls[poll].regs[*i].armed = false;
            }
        }
        for (_, _, s, _) in &ready {
            match *s {
                Source::Udp(s) => self.socks[s].edge = false,
                Source::Timer(t) => self.timers[t].edge = false,
                Source::Listener(l) => self.listeners[l].edge = false,
                Source::Never => {}
            }
        }
        ready.into_iter().map(|r| r.3).collect()
    }

    pub fn timer_new(&mut self) -> TimerId {
        self.timers.push(TimerObj { created: self.now, edge: false, edge_at: 0, arms: 0, fires: 0, cancelled_upto: 0 });
        let id = self.timers.len() - 1;
        self.record(Ev::TimerNew { timer: id });
        id
    }

    /// mio-extras 2.0.6 wheel (100 ms ticks, never polled by the server): the expiry is rounded to
    /// the nearest tick counted from timer creation, at least tick 1; a tick already past fires now.
    pub fn timer_set(&mut self, timer: TimerId, delay: Duration) {
        let tick_ns: Ns = 100 * MS;
        let created = self.timers[timer].created;
        let from_start = (self.now - created) + delay.as_nanos().min(u64::MAX as u128 / 4) as u64;
        let mut tick = (from_start / MS + 50) / 100;
        if tick == 0 {
            tick = 1;
        }
        if self.fault("timer_late", self.cfg.faults.timer_late) {
            tick += 1;
        }
        let wake = self.aux_rng.below(300 * US); // wake-up thread latency
        let fire_at = (created + tick * tick_ns).max(self.now) + wake;
        self.timers[timer].arms += 1;
        let gen = self.timers[timer].arms;
        self.record(Ev::TimerArm { timer, delay_ns: delay.as_nanos() as u64, fire_at });
        self.ev_seq += 1;
        self.events.insert((fire_at, self.ev_seq), Event::TimerFire(timer, gen));
    }

    /// Cancels what is armed: pending fire events of earlier generations are ignored.
    pub fn timer_cancel(&mut self, timer: TimerId) {
        self.timers[timer].cancelled_upto = self.timers[timer].arms as u64;
    }

    // ---------------- TCP (health check) ----------------

    pub fn tcp_listen(&mut self, proc: ProcId, addr: SocketAddr) -> io::Result<ListenId> {
        self.tcp_listen_opts(proc, addr, false)
    }

    /// Linux semantics: a second listener on an address succeeds only if every listener on it
    /// (old and new) set SO_REUSEPORT.
    pub fn tcp_listen_opts(&mut self, proc: ProcId, addr: SocketAddr, reuse_port: bool) -> io::Result<ListenId> {
        let in_use = self.listeners.iter().any(|l| !l.closed && l.addr.port() == addr.port() && (l.addr.ip() == addr.ip() || l.addr.ip().is_unspecified() || addr.ip().is_unspecified()) && !(reuse_port && l.reuse_port));
        let id = self.listeners.len();
        self.record(Ev::TcpListen { listener: id, proc, addr, ok: !in_use });
        if in_use {
            return Err(io::Error::new(io::ErrorKind::AddrInUse, "Address already in use (os error 98)"));
        }
        self.listeners.push(Listener { proc, addr, reuse_port, queue: VecDeque::new(), edge: false, edge_at: 0, closed: false });
        Ok(id)
    }

    pub fn tcp_connect(&mut self, src: SocketAddr, dst: SocketAddr) -> ConnId {
        self.tcp_connect_opts(src, dst, false)
    }

    pub fn tcp_connect_opts(&mut self, src: SocketAddr, dst: SocketAddr, peer_reset: bool) -> ConnId {
        let id = self.conns.len();
        let group: Vec<usize> = self.listeners.iter().enumerate().filter(|(_, l)| !l.closed && l.addr.port() == dst.port() && (l.addr.ip() == dst.ip() || l.addr.ip().is_unspecified())).map(|(i, _)| i).collect();
        // a REUSEPORT group of listeners: the kernel picks one member per connection
        let l = match group.len() {
            0 => None,
            1 => Some(group[0]),
            n => Some(group[self.choose(n as u32) as usize]),
        };
        self.conns.push(Conn { src, dst, connected_at: self.now, accepted_at: None, accepted_by: None, written: Vec::new(), shutdown_at: None, refused: l.is_none(), peer_reset });
        self.record(Ev::TcpConnect { conn: id, src, dst, refused: l.is_none() });
        if let Some(l) = l {
            let now = self.now;
            let lst = &mut self.listeners[l];
            lst.queue.push_back(id);
            lst.edge = true;
            lst.edge_at = now;
        }
        id
    }

    pub fn tcp_accept(&mut self, l: ListenId) -> io::Result<(ConnId, SocketAddr)> {
        let owner = self.listeners[l].proc;
        if self.procs[owner].fd_exhausted && !self.listeners[l].queue.is_empty() {
            *self.fault_fired.entry("accept_emfile").or_insert(0) += 1;
            self.record(Ev::TcpAccept { listener: l, conn: None, err: "EMFILE" });
            // EMFILE has no ErrorKind of its own
            return Err(io::Error::from_raw_os_error(24));
        }
        if !self.listeners[l].queue.is_empty() && self.fault("accept_err", self.cfg.faults.accept_err) {
            self.record(Ev::TcpAccept { listener: l, conn: None, err: "ConnectionAborted" });
            // the aborted connection is gone, as with ECONNABORTED
            let c = self.listeners[l].queue.pop_front().unwrap();
            self.conns[c].refused = true;
            return Err(io::Error::new(io::ErrorKind::ConnectionAborted, "Software caused connection abort"));
        }
        match self.listeners[l].queue.pop_front() {
            Some(c) => {
                self.conns[c].accepted_at = Some(self.now);
                self.conns[c].accepted_by = self.current;
                self.record(Ev::TcpAccept { listener: l, conn: Some(c), err: "" });
                Ok((c, self.conns[c].src))
            }
            None => {
                self.record(Ev::TcpAccept { listener: l, conn: None, err: "WouldBlock" });
                Err(io::Error::new(io::ErrorKind::WouldBlock, "Resource temporarily unavailable (os error 11)"))
            }
        }
    }

    pub fn tcp_write(&mut self, c: ConnId, data: &[u8]) -> io::Result<usize> {
        if self.fault("tcp_write_err", self.cfg.faults.tcp_write_err) {
            self.record(Ev::TcpWrite { conn: c, data: Rc::new(data.to_vec()), ok: false });
            return Err(io::Error::new(io::ErrorKind::BrokenPipe, "Broken pipe"));
        }
        if self.conns[c].shutdown_at.is_some() {
            self.record(Ev::TcpWrite { conn: c, data: Rc::new(data.to_vec()), ok: false });
            return Err(io::Error::new(io::ErrorKind::BrokenPipe, "Broken pipe"));
        }
        if self.conns[c].peer_reset {
            *self.fault_fired.entry("tcp_peer_reset").or_insert(0) += 1;
            self.record(Ev::TcpWrite { conn: c, data: Rc::new(data.to_vec()), ok: false });
            return Err(io::Error::new(io::ErrorKind::ConnectionReset, "Connection reset by peer (os error 104)"));
        }
        self.conns[c].written.extend_from_slice(data);
        self.record(Ev::TcpWrite { conn: c, data: Rc::new(data.to_vec()), ok: true });
        Ok(data.len())
    }

    pub fn tcp_shutdown(&mut self, c: ConnId) {
        if self.conns[c].shutdown_at.is_none() {
            self.conns[c].shutdown_at = Some(self.now);
            self.record(Ev::TcpShutdown { conn: c });
        }
    }

    // ---------------- entropy ----------------

    pub fn entropy(&mut self, consumer: &'static str, buf: &mut [u8]) {
        self.entropy_rng.fill(buf);
        self.record(Ev::Entropy { consumer, bytes: Rc::new(buf.to_vec()) });
    }

    // ---------------- scheduler internals ----------------

    fn cond_ready(&self, c: &Wait) -> bool {
        match c {
            Wait::Poll(p) => self.poll_ready(*p),
            Wait::Recv(s) => !self.socks[*s].queue.is_empty() || self.socks[*s].closed,
            Wait::Join(t) => self.tasks[*t].state == TState::Done,
            Wait::Mutex(m) => self.mutexes[*m].locked_by.is_none(),
            Wait::Conn(c) => self.conns[*c].shutdown_at.is_some() || self.conns[*c].refused,
            Wait::Sleep => false,
        }
    }

    fn eligible(&self, t: &Task) -> bool {
        if t.ready_at > self.now {
            return false;
        }
        match &t.state {
            TState::Runnable => true,
            TState::Blocked { cond, deadline } => self.cond_ready(cond) || deadline.map(|d| d <= self.now).unwrap_or(false),
            TState::Done => false,
        }
    }

    /// earliest future instant at which something can happen, if any
    fn next_instant(&self) -> Option<Ns> {
        let mut best: Option<Ns> = self.events.keys().next().map(|k| k.0);
        let mut upd = |v: Ns| {
            best = Some(best.map(|b| b.min(v)).unwrap_or(v));
        };
        for t in &self.tasks {
            match &t.state {
                TState::Runnable => upd(t.ready_at),
                TState::Blocked { cond, deadline } => {
                    if self.cond_ready(cond) {
                        upd(t.ready_at);
                    } else if let Some(d) = deadline {
                        upd((*d).max(t.ready_at));
                    }
                }
                TState::Done => {}
            }
        }
        best
    }

    fn pick(&mut self) -> Option<TaskId> {
        let mut ready: Vec<TaskId> = self.tasks.iter().filter(|t| self.eligible(t)).map(|t| t.id).collect();
        if ready.is_empty() {
            return None;
        }
        // position 0 = keep running the task that ran last, if it can
        if let Some(l) = self.last_run {
            if let Some(i) = ready.iter().position(|&t| t == l) {
                ready.remove(i);
                ready.insert(0, l);
            }
        }
        let n = ready.len() as u32;
        let strategy = self.cfg.strategy.clone();
        let starved: Option<TaskId> = match strategy {
            Strategy::StarveOne(k) => {
                let sut: Vec<TaskId> = self.tasks.iter().filter(|t| self.procs[t.proc].sut && t.state != TState::Done && !t.is_main).map(|t| t.id).collect();
                if sut.is_empty() {
                    None
                } else {
                    Some(sut[k as usize % sut.len()])
                }
            }
            _ => None,
        };
        let ready_ref = &ready;
        let idx = self.tape.draw(n, |r| match strategy {
            Strategy::Uniform => r.below(n as u64) as u32,
            Strategy::Sticky(q) => {
                if r.below(1000) < q as u64 {
                    0
                } else {
                    r.below(n as u64) as u32
                }
            }
            Strategy::StarveOne(_) => {
                let mut i = r.below(n as u64) as u32;
                if Some(ready_ref[i as usize]) == starved && r.below(50) != 0 {
                    // pick someone else if there is anyone else
                    i = (i + 1 + r.below(n as u64 - 1).min(n as u64 - 2) as u32) % n;
                }
                i
            }
        });
        let t = ready[idx as usize];
        // slow / stalled node: postpone instead of running
        let proc = self.tasks[t].proc;
        if self.procs[proc].sut && self.fault("postpone", self.cfg.faults.postpone) {
            let d = 1 + self.choose(self.cfg.faults.postpone_max_us.max(1)) as u64;
            self.tasks[t].ready_at = self.now + d * US;
            return self.pick();
        }
        Some(t)
    }
}

// ------------------------------------------------------------------------------------------
// seam-side API (called from inside tasks, never with the world borrowed)
// ------------------------------------------------------------------------------------------

fn in_task() -> bool {
    try_with(|w| w.current.is_some()).unwrap_or(false)
}

fn suspend_current() {
    let y = YIELDER.with(|c| c.get());
    assert!(!y.is_null(), "suspend outside a task");
    let r = unsafe { (*y).suspend(()) };
    if let Resume::Kill = r {
        panic::resume_unwind(Box::new(Killed));
    }
}

/// Every seam call starts here: charge the op's service time and hand control to the scheduler.
pub fn yield_point(op: Op) {
    if std::thread::panicking() || !in_task() {
        return;
    }
    with(|w| {
        let t = w.current.unwrap();
        let c = w.cost(op);
        let task = &mut w.tasks[t];
        task.ready_at = task.ready_at.max(w.now) + c;
        task.state = TState::Runnable;
        task.ops += 1;
    });
    suspend_current();
}

/// Block the current task until `cond` holds or the deadline passes. Returns true if the
/// condition held at wake-up.
pub fn block_on(cond: Wait, deadline: Option<Ns>) -> bool {
    if std::thread::panicking() || !in_task() {
        return with(|w| w.cond_ready(&cond));
    }
    with(|w| {
        let t = w.current.unwrap();
        w.tasks[t].state = TState::Blocked { cond: cond.clone(), deadline };
    });
    suspend_current();
    with(|w| w.cond_ready(&cond))
}

pub fn now() -> Ns {
    with(|w| w.now)
}

pub fn sleep(d: Duration) {
    sleep_as(d, false)
}

/// The time a file operation takes: blocks like `sleep`, recorded as `DiskWait`.
pub fn disk_wait(d: Duration) {
    sleep_as(d, true)
}

fn sleep_as(d: Duration, disk: bool) {
    yield_point(Op::Small);
    let dl = with(|w| {
        let ns = d.as_nanos().min(u64::MAX as u128 / 4) as u64;
        w.record(if disk { Ev::DiskWait { ns } } else { Ev::Sleep { ns } });
        w.now + ns
    });
    loop {
        block_on(Wait::Sleep, Some(dl));
        if !in_task() || std::thread::panicking() || now() >= dl {
            break;
        }
    }
}

/// Read the simulated wall clock (a scheduling point; logged).
pub fn wall_now() -> i128 {
    yield_point(Op::ClockRead);
    with(|w| {
        let v = w.wall_now();
        w.record(Ev::ClockRead { wall_ns: v });
        v
    })
}

/// Interposed `clock_gettime`: the simulated clocks for code that reaches the C library without
/// passing a source-level seam (and, since `verif_std::time::SystemTime` became std's own type, for
/// every wall-clock reading). A wall-clock reading is a scheduling point and is recorded; a
/// monotonic one is neither. None outside a task.
pub fn intercepted_clock(realtime: bool) -> Option<i128> {
    if std::thread::panicking() || !in_task() {
        return None;
    }
    if realtime {
        // a wall-clock reading is a scheduling point like the one the source-level seam used to
        // make (the task is inside a foreign frame while it is parked there)
        let me = with(|w| {
            let t = w.current.unwrap();
            w.tasks[t].foreign_depth += 1;
            t
        });
        yield_point(Op::ClockRead);
        with(|w| w.tasks[me].foreign_depth = w.tasks[me].foreign_depth.saturating_sub(1));
    }
    try_with(|w| {
        w.current?;
        if realtime {
            let v = w.wall_now();
            w.record(Ev::ClockRead { wall_ns: v });
            Some(v)
        } else {
            Some(w.now as i128)
        }
    })
    .flatten()
}

/// Interposed `exit`: the simulated process ends with `code`; the calling task is parked for good
/// (its frames cannot be unwound: it is abandoned when the scheduler comes to kill it, like the
/// stack of a thread of a process that has exited). Returns only outside a task.
pub fn intercepted_exit(code: i32) {
    if std::thread::panicking() || !in_task() {
        return;
    }
    with(|w| {
        let t = w.current.unwrap();
        w.tasks[t].foreign_depth += 1;
        let p = w.cur_proc();
        w.terminate_proc(p, code, "exit");
    });
    loop {
        // never runnable again; the scheduler abandons the task instead of resuming it to die
        block_on(Wait::Sleep, None);
    }
}

/// The same without a history record (deadline arithmetic of an absolute sleep).
pub fn intercepted_clock_peek(realtime: bool) -> Option<i128> {
    if std::thread::panicking() {
        return None;
    }
    try_with(|w| {
        w.current?;
        Some(if realtime { w.wall_now() } else { w.now as i128 })
    })
    .flatten()
}

/// Interposed `nanosleep` / `clock_nanosleep`: sleeps in simulated time. Returns false outside a task.
pub fn intercepted_sleep(ns: u64) -> bool {
    if std::thread::panicking() || !in_task() {
        return false;
    }
    with(|w| {
        let t = w.current.unwrap();
        w.tasks[t].foreign_depth += 1;
    });
    let me = with(|w| w.current.unwrap());
    sleep(Duration::from_nanos(ns));
    with(|w| w.tasks[me].foreign_depth = w.tasks[me].foreign_depth.saturating_sub(1));
    true
}

/// Wall clock without a scheduling point or a history record (for log timestamps etc.)
pub fn wall_peek() -> i128 {
    with(|w| w.wall_now())
}

pub fn entropy(consumer: &'static str, buf: &mut [u8]) {
    // takes time and is a scheduling point: start-up, which is mostly key generation, then has a
    // duration, and what one thread does while another is still starting can be observed
    if in_task() && !std::thread::panicking() {
        yield_point(Op::Entropy);
    }
    with(|w| w.entropy(consumer, buf))
}

pub fn task_done(t: TaskId) -> bool {
    try_with(|w| w.tasks.get(t).map(|k| k.state == TState::Done).unwrap_or(true)).unwrap_or(true)
}

pub fn current_task_id() -> Option<TaskId> {
    try_with(|w| w.current).flatten()
}

pub fn current_task_name() -> Option<String> {
    try_with(|w| w.current.map(|t| w.tasks[t].name.clone())).flatten()
}

pub fn spawn_task(name: &str, f: Box<dyn FnOnce()>) -> TaskId {
    yield_point(Op::Small);
    with(|w| {
        let p = w.cur_proc();
        w.new_task(p, name, false, f)
    })
}

pub fn join_task(t: TaskId) -> TaskEnd {
    yield_point(Op::Small);
    loop {
        if let Some(e) = with(|w| w.tasks[t].end.clone()) {
            return e;
        }
        block_on(Wait::Join(t), None);
        if std::thread::panicking() {
            return TaskEnd::Killed;
        }
    }
}

pub fn proc_exit(code: i32) -> ! {
    if in_task() && !std::thread::panicking() {
        yield_point(Op::Small);
    }
    with(|w| {
        let p = w.cur_proc();
        w.terminate_proc(p, code, "exit");
    });
    panic::resume_unwind(Box::new(ExitPayload(code)));
}

pub fn udp_recv_from(sock: SockId, buf: &mut [u8]) -> io::Result<(usize, SocketAddr)> {
    let hit = with(|w| !w.socks[sock].queue.is_empty());
    yield_point(if hit { Op::RecvHit } else { Op::RecvEmpty });
    with(|w| w.udp_try_recv(sock, buf))
}

/// std-style blocking receive honouring the socket's read timeout.
pub fn udp_recv_blocking(sock: SockId, buf: &mut [u8]) -> io::Result<(usize, SocketAddr)> {
    yield_point(Op::RecvHit);
    let deadline = with(|w| w.socks[sock].read_timeout.map(|d| w.now + d.as_nanos() as u64));
    loop {
        let r = with(|w| {
            // skip phantoms silently
            while matches!(w.socks[sock].queue.front(), Some(d) if d.phantom) {
                w.socks[sock].queue.pop_front();
            }
            if w.socks[sock].queue.is_empty() {
                None
            } else {
                Some(w.udp_try_recv(sock, buf))
            }
        });
        if let Some(r) = r {
            return r;
        }
        if let Some(d) = deadline {
            if now() >= d {
                with(|w| w.record(Ev::UdpRecvEmpty { sock }));
                return Err(io::Error::new(io::ErrorKind::WouldBlock, "Resource temporarily unavailable (os error 11)"));
            }
        }
        block_on(Wait::Recv(sock), deadline);
        if std::thread::panicking() {
            return Err(io::Error::new(io::ErrorKind::Other, "killed"));
        }
    }
}

pub fn udp_send_to(sock: SockId, data: &[u8], dst: SocketAddr) -> io::Result<usize> {
    yield_point(Op::Send);
    with(|w| w.udp_send(sock, data, dst))
}

pub fn poll_wait(poll: PollId, max: usize, timeout: Option<Duration>) -> io::Result<Vec<usize>> {
    poll_wait_opts(poll, max, timeout, false)
}

/// `interruptible`: a signal that arrives while the task is blocked makes the call fail with
/// `Interrupted` (mio's `poll_interruptible`); otherwise the wait is resumed, as `Poll::poll` does.
pub fn poll_wait_opts(poll: PollId, max: usize, timeout: Option<Duration>, interruptible: bool) -> io::Result<Vec<usize>> {
    yield_point(Op::Poll);
    let deadline = with(|w| timeout.map(|d| w.now + d.as_nanos().min(u64::MAX as u128 / 4) as u64));
    let spurious = with(|w| {
        let p = w.cfg.faults.poll_spurious;
        let sut = w.cur_proc_opt().map(|p| w.procs[p].sut).unwrap_or(false);
        sut && w.fault("poll_spurious", p)
    });
    if spurious {
        with(|w| w.record(Ev::PollRet { poll, tokens: vec![], spurious: true }));
        return Ok(vec![]);
    }
    loop {
        let ready = with(|w| w.poll_collect(poll, max));
        if !ready.is_empty() {
            with(|w| w.record(Ev::PollRet { poll, tokens: ready.clone(), spurious: false }));
            return Ok(ready);
        }
        if let Some(d) = deadline {
            if now() >= d {
                with(|w| w.record(Ev::PollRet { poll, tokens: vec![], spurious: false }));
                return Ok(vec![]);
            }
        }
        block_on(Wait::Poll(poll), deadline);
        if std::thread::panicking() || !in_task() {
            return Ok(vec![]);
        }
        let interrupted = with(|w| {
            let t = w.current.unwrap();
            std::mem::take(&mut w.tasks[t].eintr)
        });
        if interrupted && interruptible {
            with(|w| w.record(Ev::PollRet { poll, tokens: vec![], spurious: true }));
            return Err(io::Error::new(io::ErrorKind::Interrupted, "Interrupted system call (os error 4)"));
        }
    }
}

pub fn mutex_new() -> MutexId {
    with(|w| {
        w.mutexes.push(MutexObj::default());
        w.mutexes.len() - 1
    })
}

/// Returns whether the mutex is poisoned.
pub fn mutex_lock(m: MutexId) -> bool {
    yield_point(Op::Small);
    loop {
        let got = with(|w| {
            if w.mutexes[m].locked_by.is_none() {
                w.mutexes[m].locked_by = Some(w.current.unwrap_or(usize::MAX));
                let p = w.mutexes[m].poisoned;
                w.record(Ev::MutexLock { mutex: m, poisoned: p });
                Some(p)
            } else {
                None
            }
        });
        if let Some(p) = got {
            return p;
        }
        if std::thread::panicking() || !in_task() {
            return true;
        }
        block_on(Wait::Mutex(m), None);
    }
}

/// `try_lock`: Some(poisoned) when the lock was free, None when it is held.
pub fn mutex_try_lock(m: MutexId) -> Option<bool> {
    yield_point(Op::Small);
    with(|w| {
        if w.mutexes[m].locked_by.is_none() {
            w.mutexes[m].locked_by = Some(w.current.unwrap_or(usize::MAX));
            let p = w.mutexes[m].poisoned;
            w.record(Ev::MutexLock { mutex: m, poisoned: p });
            Some(p)
        } else {
            None
        }
    })
}

pub fn mutex_is_poisoned(m: MutexId) -> bool {
    try_with(|w| m < w.mutexes.len() && w.mutexes[m].poisoned).unwrap_or(false)
}

pub fn mutex_clear_poison(m: MutexId) {
    try_with(|w| {
        if m < w.mutexes.len() {
            w.mutexes[m].poisoned = false;
        }
    });
}

pub fn mutex_unlock(m: MutexId, poison: bool) {
    try_with(|w| {
        if m < w.mutexes.len() {
            w.mutexes[m].locked_by = None;
            if poison {
                w.mutexes[m].poisoned = true;
            }
            w.record(Ev::MutexUnlock { mutex: m, poison });
        }
    });
}

pub fn stdout(text: &str) {
    try_with(|w| {
        if let Some(p) = w.cur_proc_opt() {
            w.procs[p].stdout.push_str(text);
            w.record(Ev::Stdout { proc: p, text: text.to_string() });
        }
    });
}

pub fn stderr(text: &str) {
    try_with(|w| {
        if let Some(p) = w.cur_proc_opt() {
            w.procs[p].stderr.push_str(text);
            w.record(Ev::Stderr { proc: p, text: text.to_string() });
        }
    });
}

// ------------------------------------------------------------------------------------------
// the runner
// ------------------------------------------------------------------------------------------

type Co = Coroutine<Resume, (), TaskEnd, DefaultStack>;

fn get_stack(size: usize) -> DefaultStack {
    STACKS.with(|s| s.borrow_mut().pop()).unwrap_or_else(|| DefaultStack::new(size).expect("stack allocation"))
}

fn panic_message(p: &Box<dyn Any + Send>) -> String {
    if let Some(s) = p.downcast_ref::<&str>() {
        s.to_string()
    } else if let Some(s) = p.downcast_ref::<String>() {
        s.clone()
    } else {
        "<non-string panic payload>".to_string()
    }
}

fn make_co(id: TaskId, f: Box<dyn FnOnce()>, stack_size: usize) -> Co {
    Coroutine::with_stack(get_stack(stack_size), move |y: &Yielder<Resume, ()>, first: Resume| {
        YIELDERS.with(|ys| ys.borrow_mut()[id] = y as *const _);
        YIELDER.with(|c| c.set(y as *const _));
        if let Resume::Kill = first {
            drop(f);
            return TaskEnd::Killed;
        }
        match panic::catch_unwind(AssertUnwindSafe(f)) {
            Ok(()) => TaskEnd::Returned,
            Err(p) => {
                if p.is::<Killed>() {
                    TaskEnd::Killed
                } else if let Some(e) = p.downcast_ref::<ExitPayload>() {
                    TaskEnd::Exited(e.0)
                } else {
                    TaskEnd::Panicked(panic_message(&p))
                }
            }
        }
    })
}

/// Run the installed world until its horizon, quiescence, the step cap or a stop request.
pub fn run() -> Outcome {
    let mut cos: Vec<Option<Co>> = Vec::new();
    YIELDERS.with(|ys| ys.borrow_mut().clear());
    let stack_size = with(|w| w.cfg.stack_size);

    let outcome = loop {
        // admit new tasks
        let newq = with(|w| std::mem::take(&mut w.spawn_q));
        for (id, f) in newq {
            while cos.len() <= id {
                cos.push(None);
            }
            YIELDERS.with(|ys| {
                let mut ys = ys.borrow_mut();
                while ys.len() <= id {
                    ys.push(std::ptr::null());
                }
            });
            cos[id] = Some(make_co(id, f, stack_size));
        }

        // kill what must die
        let kills: Vec<TaskId> = with(|w| w.tasks.iter().filter(|t| t.kill_pending && t.state != TState::Done).map(|t| t.id).collect());
        for t in kills {
            resume_task(&mut cos, t, Resume::Kill);
        }

        let (stop, over) = with(|w| (w.stop, w.now >= w.cfg.horizon));
        if stop {
            break Outcome::Stopped;
        }
        if over {
            break Outcome::Horizon;
        }
        if with(|w| w.steps >= w.cfg.step_cap) {
            break Outcome::StepCap;
        }

        // step-count triggers (crash / signal at the k-th scheduling point)
        let trig = with(|w| {
            let k = w.step_triggers.keys().next().copied();
            match k {
                Some(k) if k <= w.steps => w.step_triggers.remove(&k),
                _ => None,
            }
        });
        if let Some(fs) = trig {
            for f in fs {
                f();
            }
            continue;
        }

        // due events first
        let due = with(|w| {
            let k = w.events.keys().next().copied();
            match k {
                Some(k) if k.0 <= w.now => w.events.remove(&k),
                _ => None,
            }
        });
        if let Some(ev) = due {
            with(|w| w.steps += 1);
            match ev {
                Event::Deliver(d) => with(|w| w.deliver(d)),
                Event::TimerFire(t, gen) => with(|w| {
                    if (gen as u64) <= w.timers[t].cancelled_upto {
                        return;
                    }
                    let now = w.now;
                    let k = &mut w.timers[t];
                    k.edge = true;
                    k.edge_at = now;
                    k.fires += 1;
                    w.record(Ev::TimerFire { timer: t });
                }),
                Event::Call(f) => f(),
            }
            continue;
        }

        match with(|w| w.pick()) {
            Some(t) => {
                with(|w| w.steps += 1);
                resume_task(&mut cos, t, Resume::Go);
            }
            None => {
                let next = with(|w| w.next_instant());
                match next {
                    Some(t) => with(|w| {
                        let t = t.max(w.now);
                        w.now = t.min(w.cfg.horizon);
                        if t > w.cfg.horizon {
                            w.now = w.cfg.horizon;
                        }
                    }),
                    None => break Outcome::Quiescent,
                }
            }
        }
    };

    // what was still queued where, before teardown closes every socket
    with(|w| {
        for s in w.socks.iter_mut() {
            if !s.closed {
                s.unread_at_end = Some(s.queue.iter().filter(|d| !d.phantom).count());
            }
        }
    });
    // tear down: unwind every task that is still suspended, recycle stacks
    with(|w| w.current = None);
    for t in 0..cos.len() {
        let alive = with(|w| w.tasks[t].state != TState::Done);
        if alive {
            with(|w| w.tasks[t].kill_pending = true);
            resume_task_quiet(&mut cos, t);
        }
    }
    for c in cos.into_iter().flatten() {
        if c.done() {
            let s = c.into_stack();
            STACKS.with(|st| {
                let mut st = st.borrow_mut();
                if st.len() < 64 {
                    st.push(s);
                }
            });
        }
    }
    YIELDER.with(|c| c.set(std::ptr::null()));
    with(|w| w.outcome = Some(outcome.clone()));
    outcome
}

fn resume_task_quiet(cos: &mut [Option<Co>], t: TaskId) {
    // teardown at the end of a run: no history records, no process semantics
    let co = match cos[t].as_mut() {
        Some(c) => c,
        None => return,
    };
    if co.done() {
        return;
    }
    if with(|w| w.tasks[t].foreign_depth > 0) {
        abandon(cos, t);
        return;
    }
    with(|w| w.current = Some(t));
    YIELDERS.with(|ys| YIELDER.with(|c| c.set(ys.borrow()[t])));
    loop {
        match co.resume(Resume::Kill) {
            CoroutineResult::Return(_) => break,
            CoroutineResult::Yield(()) => continue,
        }
    }
    with(|w| {
        w.current = None;
        w.tasks[t].state = TState::Done;
        if w.tasks[t].end.is_none() {
            w.tasks[t].end = Some(TaskEnd::Killed);
        }
    });
}

/// A task suspended inside a frame that cannot be unwound (an interposed C-library call) is
/// not killed by unwinding: its stack is leaked, as the stack of a thread of a process that
/// exits is. Destructors do not run (a mutex it holds stays locked).
fn abandon(cos: &mut [Option<Co>], t: TaskId) {
    if let Some(co) = cos.get_mut(t).and_then(|c| c.take()) {
        std::mem::forget(co);
    }
    with(|w| {
        w.tasks[t].state = TState::Done;
        w.tasks[t].kill_pending = false;
        if w.tasks[t].end.is_none() {
            w.tasks[t].end = Some(TaskEnd::Killed);
            w.record(Ev::TaskEnd { task: t, how: "killed".to_string() });
        }
    });
}

fn resume_task(cos: &mut [Option<Co>], t: TaskId, how: Resume) {
    if matches!(how, Resume::Kill) && with(|w| w.tasks[t].foreign_depth > 0) && cos.get(t).map(|c| c.is_some()).unwrap_or(false) {
        abandon(cos, t);
        return;
    }
    let co = match cos.get_mut(t).and_then(|c| c.as_mut()) {
        Some(c) => c,
        None => {
            with(|w| {
                w.tasks[t].state = TState::Done;
                w.tasks[t].kill_pending = false;
            });
            return;
        }
    };
    let killing = matches!(how, Resume::Kill);
    with(|w| {
        w.current = Some(t);
        if !killing {
            w.last_run = Some(t);
        }
        w.tasks[t].started = true;
        w.tasks[t].state = TState::Runnable;
    });
    YIELDERS.with(|ys| YIELDER.with(|c| c.set(ys.borrow()[t])));
    let slot = SPIN_SLOT.load(std::sync::atomic::Ordering::Relaxed);
    if !slot.is_null() {
        let (name, steps) = with(|w| (format!("{}/{}", w.procs[w.tasks[t].proc].name, w.tasks[t].name), w.steps));
        let b = name.as_bytes();
        let n = b.len().min(119);
        unsafe {
            *slot = n as u8;
            std::ptr::copy_nonoverlapping(b.as_ptr(), slot.add(1), n);
            std::ptr::copy_nonoverlapping(steps.to_le_bytes().as_ptr(), slot.add(120), 8);
        }
    }
    let mut res = co.resume(how);
    if killing {
        // a task being killed may reach further suspension points in destructors: keep killing
        while let CoroutineResult::Yield(()) = res {
            res = co.resume(Resume::Kill);
        }
    }
    match res {
        CoroutineResult::Yield(()) => {
            with(|w| w.current = None);
        }
        CoroutineResult::Return(end) => {
            with(|w| {
                w.tasks[t].state = TState::Done;
                w.tasks[t].kill_pending = false;
                w.tasks[t].end = Some(end.clone());
                let how = match &end {
                    TaskEnd::Returned => "returned".to_string(),
                    TaskEnd::Panicked(m) => format!("panicked: {}", m),
                    TaskEnd::Exited(c) => format!("exit({})", c),
                    TaskEnd::Killed => "killed".to_string(),
                };
                w.record(Ev::TaskEnd { task: t, how });
                // a mutex still held by a dead task stays locked forever (as with a leaked guard);
                // guards dropped during unwinding have already unlocked and poisoned it.
                let p = w.tasks[t].proc;
                if w.tasks[t].is_main && w.procs[p].exit.is_none() {
                    match end {
                        TaskEnd::Returned => w.terminate_proc(p, 0, "main_returned"),
                        TaskEnd::Panicked(_) => w.terminate_proc(p, 101, "main_panicked"),
                        _ => {}
                    }
                }
                w.current = None;
            });
        }
    }
}
