//! dsim — a deterministic single-threaded simulation kernel.
//!
//! One `World` per OS thread at a time. Real code runs as stackful coroutines ("tasks");
//! every seam call (socket, poll, timer, clock, mutex, spawn/join, exit, sleep) is a scheduling
//! point. All choices come from a `Tape`; time is discrete-event. Nothing here reads a real
//! clock, real entropy or the environment.

pub mod logger;
pub mod rng;
mod tape;
mod world;

pub use tape::Tape;
pub mod interpose;
pub use world::*;
