//! The choice tape: every run-time choice of a simulation is one cell.
//!
//! Search mode: cells are generated (by the caller-supplied generator, fed from a seeded PRNG)
//! and recorded. Replay mode: cells are read back; beyond the end of the recorded tape every
//! cell reads 0, which by convention is the plainest outcome (keep running the current task,
//! no fault, no delay, first member).

use crate::rng::Rng;

#[derive(Clone, Debug)]
pub struct Tape {
    replay: Option<Vec<u32>>,
    pos: usize,
    pub rng: Rng,
    pub recorded: Vec<u32>,
}

impl Tape {
    pub fn search(seed: u64) -> Tape {
        Tape { replay: None, pos: 0, rng: Rng::derive(seed, "tape"), recorded: Vec::new() }
    }

    pub fn replay(cells: Vec<u32>) -> Tape {
        Tape { replay: Some(cells), pos: 0, rng: Rng::new(0), recorded: Vec::new() }
    }

    pub fn is_replay(&self) -> bool {
        self.replay.is_some()
    }

    /// Draw a value in 0..n. In search mode `gen` produces it (given the PRNG); in replay mode it
    /// is read from the tape (reduced modulo n so that a shrunk tape stays in range).
    pub fn draw(&mut self, n: u32, gen: impl FnOnce(&mut Rng) -> u32) -> u32 {
        if n <= 1 {
            return 0;
        }
        let v = match &self.replay {
            Some(cells) => {
                let c = cells.get(self.pos).copied().unwrap_or(0);
                self.pos += 1;
                c % n
            }
            None => {
                let v = gen(&mut self.rng);
                debug_assert!(v < n);
                v.min(n - 1)
            }
        };
        self.recorded.push(v);
        v
    }

    pub fn uniform(&mut self, n: u32) -> u32 {
        self.draw(n, |r| r.below(n as u64) as u32)
    }

    /// True with probability permille/1000; the recorded cell is 0 when false.
    pub fn chance(&mut self, permille: u32) -> bool {
        if permille == 0 {
            return false;
        }
        let v = self.draw(1000, |r| {
            let x = r.below(1000) as u32;
            // map: x < permille => fire => record a non-zero cell (1000 - 1 - x stays non-zero
            // unless permille == 1000 and x == 999, which is fine: then everything fires)
            if x < permille {
                999 - x
            } else {
                0
            }
        });
        v >= 1000 - permille.min(1000)
    }
}
