//! Small deterministic PRNG (splitmix64 seeding a xoshiro256**). No external state.

#[derive(Clone, Debug)]
pub struct Rng {
    s: [u64; 4],
}

fn splitmix(x: &mut u64) -> u64 {
    *x = x.wrapping_add(0x9E37_79B9_7F4A_7C15);
    let mut z = *x;
    z = (z ^ (z >> 30)).wrapping_mul(0xBF58_476D_1CE4_E5B9);
    z = (z ^ (z >> 27)).wrapping_mul(0x94D0_49BB_1331_11EB);
    z ^ (z >> 31)
}

impl Rng {
    pub fn new(seed: u64) -> Rng {
        let mut x = seed;
        let s = [splitmix(&mut x), splitmix(&mut x), splitmix(&mut x), splitmix(&mut x)];
        Rng { s }
    }

    /// Derive an independent stream from this seed and a label.
    pub fn derive(seed: u64, label: &str) -> Rng {
        let mut h: u64 = 0xcbf2_9ce4_8422_2325 ^ seed;
        for b in label.bytes() {
            h ^= b as u64;
            h = h.wrapping_mul(0x0000_0100_0000_01B3);
        }
        Rng::new(h ^ seed.rotate_left(17))
    }

    pub fn next_u64(&mut self) -> u64 {
        let result = self.s[1].wrapping_mul(5).rotate_left(7).wrapping_mul(9);
        let t = self.s[1] << 17;
        self.s[2] ^= self.s[0];
        self.s[3] ^= self.s[1];
        self.s[1] ^= self.s[2];
        self.s[0] ^= self.s[3];
        self.s[2] ^= t;
        self.s[3] = self.s[3].rotate_left(45);
        result
    }

    pub fn next_u32(&mut self) -> u32 {
        (self.next_u64() >> 32) as u32
    }

    /// Uniform in 0..n (n > 0).
    pub fn below(&mut self, n: u64) -> u64 {
        debug_assert!(n > 0);
        // multiply-shift; bias is irrelevant at these sizes
        ((self.next_u64() as u128 * n as u128) >> 64) as u64
    }

    /// Uniform in lo..=hi.
    pub fn range(&mut self, lo: u64, hi: u64) -> u64 {
        lo + self.below(hi - lo + 1)
    }

    pub fn chance(&mut self, num: u64, den: u64) -> bool {
        self.below(den) < num
    }

    pub fn fill(&mut self, buf: &mut [u8]) {
        for chunk in buf.chunks_mut(8) {
            let v = self.next_u64().to_le_bytes();
            chunk.copy_from_slice(&v[..chunk.len()]);
        }
    }

    pub fn pick<'a, T>(&mut self, xs: &'a [T]) -> &'a T {
        &xs[self.below(xs.len() as u64) as usize]
    }
}
