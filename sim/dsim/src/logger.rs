//! Log sink: routes records of the real `log` facade into the current world's history.
//!
//! `log::max_level()` is a process-global. It is set to the simulated process's level whenever a
//! simulated process initialises its logger (what the real `SimpleLogger::init` does), so the
//! argument expressions of `debug!`/`trace!` are evaluated exactly when they would be in an
//! embedding that selected that verbosity. One world per OS process at a time.

use crate::{try_with, Ev};

struct Sink;

static SINK: Sink = Sink;

impl log::Log for Sink {
    fn enabled(&self, _: &log::Metadata) -> bool {
        true
    }

    fn log(&self, record: &log::Record) {
        let level = record.level() as u8;
        let target = record.target().to_string();
        let msg = format!("{}", record.args());
        try_with(|w| {
            if let Some(p) = w.cur_proc_opt() {
                if record.level() <= w.procs[p].log_level {
                    w.record(Ev::Log { proc: p, level, target, msg });
                }
            }
        });
    }

    fn flush(&self) {}
}

pub fn install() {
    // idempotent: a second call fails inside `log` and is ignored
    let _ = log::set_logger(&SINK);
}

/// Select the verbosity of the current simulated process (and the process-global max level).
pub fn set_level(level: log::LevelFilter) {
    install();
    log::set_max_level(level);
    try_with(|w| {
        if let Some(p) = w.cur_proc_opt() {
            w.procs[p].log_level = level;
        }
    });
}
