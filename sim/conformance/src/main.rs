//! Stub conformance: scripted sequences against real mio/mio-extras/net2 (real loopback sockets,
//! real time) and against the stand-ins (simulated kernel), traces compared.
//! This is model validation: it uses real time and real sockets and is therefore never part of a
//! registered check. Result is written to /verif/model_conformance.json.

use std::net::SocketAddr;
use std::time::Duration;

trait Env {
    fn udp_send(&self, to: SocketAddr, n: usize);
    fn tcp_connect(&self, to: SocketAddr);
    fn settle(&self);
    fn now_ms(&self) -> u64;
    fn port(&self, k: u16) -> u16;
}

macro_rules! scripts {
    ($modname:ident, $mio:ident, $extras:ident, $net2:ident) => {
        mod $modname {
            use super::Env;
            use std::io::ErrorKind;
            use std::net::SocketAddr;
            use std::time::Duration;
            use $mio::net::{TcpListener, UdpSocket};
            use $mio::{Events, Poll, PollOpt, Ready, Token};
            use $net2::unix::{UnixTcpBuilderExt, UnixUdpBuilderExt};

            fn poll_n(p: &Poll, ev: &mut Events, ms: u64) -> String {
                p.poll(ev, Some(Duration::from_millis(ms))).unwrap();
                let toks: Vec<usize> = ev.iter().map(|e| e.token().0).collect();
                format!("poll->{:?}", toks)
            }

            fn recv(s: &UdpSocket) -> String {
                let mut b = [0u8; 2048];
                match s.recv_from(&mut b) {
                    Ok((n, _)) => format!("recv {}", n),
                    Err(e) if e.kind() == ErrorKind::WouldBlock => "recv wouldblock".to_string(),
                    Err(e) => format!("recv err {:?}", e.kind()),
                }
            }

            pub fn udp_edges(env: &dyn Env) -> Vec<String> {
                let mut t = Vec::new();
                let addr: SocketAddr = format!("127.0.0.1:{}", env.port(1)).parse().unwrap();
                let s = UdpSocket::bind(&addr).unwrap();
                // data queued before registration
                env.udp_send(addr, 10);
                env.settle();
                let p = Poll::new().unwrap();
                p.register(&s, Token(0), Ready::readable(), PollOpt::edge()).unwrap();
                let mut ev = Events::with_capacity(16);
                t.push(format!("before-registration {}", poll_n(&p, &mut ev, 100)));
                t.push(recv(&s));
                t.push(recv(&s));
                t.push(format!("drained {}", poll_n(&p, &mut ev, 50)));
                // many datagrams, one event; no arrival while undrained => no event
                env.udp_send(addr, 11);
                env.udp_send(addr, 12);
                env.udp_send(addr, 13);
                env.settle();
                t.push(format!("three-queued {}", poll_n(&p, &mut ev, 100)));
                t.push(recv(&s));
                t.push(format!("undrained-no-arrival {}", poll_n(&p, &mut ev, 50)));
                // new arrival while undrained => event again
                env.udp_send(addr, 14);
                env.settle();
                t.push(format!("undrained-new-arrival {}", poll_n(&p, &mut ev, 100)));
                t.push(recv(&s));
                t.push(recv(&s));
                t.push(recv(&s));
                t.push(recv(&s));
                // arrival during a drain, consumed by it
                env.udp_send(addr, 15);
                env.settle();
                t.push(format!("one-queued {}", poll_n(&p, &mut ev, 100)));
                env.udp_send(addr, 16);
                env.settle();
                t.push(recv(&s));
                t.push(recv(&s));
                t.push(recv(&s));
                t.push(format!("arrived-and-consumed-during-drain {}", poll_n(&p, &mut ev, 50)));
                // plain timeout
                let t0 = env.now_ms();
                t.push(format!("idle {}", poll_n(&p, &mut ev, 100)));
                let el = env.now_ms() - t0;
                t.push(format!("timeout-elapsed-ok {}", (100..=140).contains(&el)));
                t
            }

            pub fn timer_rearm(env: &dyn Env) -> Vec<String> {
                let mut t = Vec::new();
                let p = Poll::new().unwrap();
                let mut timer: $extras::timer::Timer<()> = Default::default();
                p.register(&timer, Token(1), Ready::readable(), PollOpt::edge()).unwrap();
                let t0 = env.now_ms();
                timer.set_timeout(Duration::from_millis(150), ());
                let mut ev = Events::with_capacity(16);
                for _ in 0..4 {
                    // wait for the expiry in 100 ms polls like the server does; never call Timer::poll
                    let mut fired_at = None;
                    for _ in 0..12 {
                        p.poll(&mut ev, Some(Duration::from_millis(100))).unwrap();
                        if ev.iter().any(|e| e.token() == Token(1)) {
                            fired_at = Some(env.now_ms() - t0);
                            break;
                        }
                    }
                    // rounded to the wheel's 100 ms ticks
                    t.push(format!("timer fired at tick {:?}", fired_at.map(|ms| (ms + 30) / 100)));
                    timer.set_timeout(Duration::from_millis(150), ());
                }
                t
            }

            pub fn binds(env: &dyn Env) -> Vec<String> {
                let mut t = Vec::new();
                let a: SocketAddr = format!("127.0.0.1:{}", env.port(2)).parse().unwrap();
                let l1 = TcpListener::bind(&a);
                let l2 = TcpListener::bind(&a);
                t.push(format!("tcp bind twice: {} then {:?}", l1.is_ok(), l2.as_ref().err().map(|e| e.kind())));
                let u: SocketAddr = format!("127.0.0.1:{}", env.port(3)).parse().unwrap();
                let b1 = $net2::UdpBuilder::new_v4().unwrap().reuse_address(true).unwrap().reuse_port(true).unwrap().bind(u);
                let b2 = $net2::UdpBuilder::new_v4().unwrap().reuse_address(true).unwrap().reuse_port(true).unwrap().bind(u);
                t.push(format!("udp reuseport twice: {} {}", b1.is_ok(), b2.is_ok()));
                let b3 = UdpSocket::bind(&u);
                t.push(format!("plain udp bind on a reuseport address: {:?}", b3.as_ref().err().map(|e| e.kind())));
                let h: SocketAddr = format!("127.0.0.1:{}", env.port(4)).parse().unwrap();
                let mk = || $net2::TcpBuilder::new_v4().and_then(|b| b.reuse_address(true)?.reuse_port(true)?.bind(h)?.listen(128)).and_then(TcpListener::from_std);
                let t1 = mk();
                let t2 = mk();
                t.push(format!("tcp reuseport listeners twice: {} {}", t1.is_ok(), t2.is_ok()));
                t
            }

            pub fn accept_edges(env: &dyn Env) -> Vec<String> {
                let mut t = Vec::new();
                let a: SocketAddr = format!("127.0.0.1:{}", env.port(5)).parse().unwrap();
                let l = TcpListener::bind(&a).unwrap();
                let p = Poll::new().unwrap();
                p.register(&l, Token(2), Ready::readable(), PollOpt::edge()).unwrap();
                let mut ev = Events::with_capacity(16);
                env.tcp_connect(a);
                env.tcp_connect(a);
                env.settle();
                t.push(format!("two-connects {}", poll_n(&p, &mut ev, 100)));
                t.push(format!("accept {}", l.accept().is_ok()));
                t.push(format!("second-still-queued {}", poll_n(&p, &mut ev, 50)));
                env.tcp_connect(a);
                env.settle();
                t.push(format!("third-connect {}", poll_n(&p, &mut ev, 100)));
                t.push(format!("accept {}", l.accept().is_ok()));
                t.push(format!("accept {}", l.accept().is_ok()));
                t.push(format!("accept wouldblock {:?}", l.accept().err().map(|e| e.kind())));
                t
            }
        }
    };
}

scripts!(real, mio_real, mio_extras_real, net2_real);
scripts!(sim, mio_sim, mio_extras_sim, net2_sim);

struct RealEnv {
    base: u16,
    t0: std::time::Instant,
    conns: std::cell::RefCell<Vec<std::net::TcpStream>>,
}

impl Env for RealEnv {
    fn udp_send(&self, to: SocketAddr, n: usize) {
        let s = std::net::UdpSocket::bind("127.0.0.1:0").unwrap();
        s.send_to(&vec![7u8; n], to).unwrap();
    }
    fn tcp_connect(&self, to: SocketAddr) {
        if let Ok(c) = std::net::TcpStream::connect(to) {
            self.conns.borrow_mut().push(c);
        }
    }
    fn settle(&self) {
        std::thread::sleep(Duration::from_millis(20));
    }
    fn now_ms(&self) -> u64 {
        self.t0.elapsed().as_millis() as u64
    }
    fn port(&self, k: u16) -> u16 {
        self.base + k
    }
}

struct SimEnv;

impl Env for SimEnv {
    fn udp_send(&self, to: SocketAddr, n: usize) {
        dsim::with(|w| {
            let p = w.new_proc("peer", vec![], Default::default(), false);
            let s = w.udp_socket(p);
            w.udp_bind(s, "10.0.0.9:0".parse().unwrap()).unwrap();
            let _ = w.udp_send(s, &vec![7u8; n], to);
        });
    }
    fn tcp_connect(&self, to: SocketAddr) {
        dsim::with(|w| {
            w.tcp_connect("10.0.0.9:4000".parse().unwrap(), to);
        });
    }
    fn settle(&self) {
        dsim::sleep(Duration::from_millis(20));
    }
    fn now_ms(&self) -> u64 {
        dsim::now() / dsim::MS
    }
    fn port(&self, k: u16) -> u16 {
        20_000 + k
    }
}

fn in_sim<T: 'static>(f: impl FnOnce() -> T + 'static) -> T {
    let cfg = dsim::Cfg { horizon: 60 * dsim::SEC, latency_jitter_us: 0, ..Default::default() };
    dsim::install(dsim::World::new(cfg, dsim::Tape::replay(vec![])));
    let slot = std::rc::Rc::new(std::cell::RefCell::new(None));
    let s2 = slot.clone();
    dsim::with(|w| {
        w.spawn_proc("script", vec![], Default::default(), true, move || {
            *s2.borrow_mut() = Some(f());
        });
    });
    dsim::run();
    let _ = dsim::take();
    let v = slot.borrow_mut().take().expect("script did not finish");
    v
}

fn main() {
    let base: u16 = 41_000 + (std::process::id() % 2000) as u16;
    let renv = RealEnv { base, t0: std::time::Instant::now(), conns: Default::default() };
    let mut report = Vec::new();
    let mut all_ok = true;
    let mut run = |name: &str, real: Vec<String>, sim: Vec<String>| {
        let ok = real == sim;
        all_ok &= ok;
        println!("== {}: {}", name, if ok { "identical" } else { "DIFFERENT" });
        for (i, r) in real.iter().enumerate() {
            let s = sim.get(i).cloned().unwrap_or_default();
            println!("   {} real: {:<55} sim: {}", if *r == s { " " } else { "!" }, r, s);
        }
        report.push(serde_json::json!({"script": name, "identical": ok, "real": real, "sim": sim}));
    };
    run("udp_edges", real::udp_edges(&renv), in_sim(|| sim::udp_edges(&SimEnv)));
    run("timer_rearm", real::timer_rearm(&renv), in_sim(|| sim::timer_rearm(&SimEnv)));
    run("binds", real::binds(&renv), in_sim(|| sim::binds(&SimEnv)));
    run("accept_edges", real::accept_edges(&renv), in_sim(|| sim::accept_edges(&SimEnv)));
    let out = serde_json::json!({"all_identical": all_ok, "kernel": std::fs::read_to_string("/proc/sys/kernel/osrelease").unwrap_or_default().trim(), "scripts": report});
    let path = std::env::var("VERIF_DIR").unwrap_or_else(|_| "/verif".into()) + "/model_conformance.json";
    std::fs::write(&path, serde_json::to_vec_pretty(&out).unwrap()).unwrap();
    println!("wrote {}", path);
    std::process::exit(if all_ok { 0 } else { 1 });
}
