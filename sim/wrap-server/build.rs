// Copies the server binary's source into OUT_DIR, neutralising `//!` inner doc comments (rustc
// rejects them inside include!) and routing process termination written with a fully qualified
// path (`std::process::exit(..)`, `use std::process;`) through the simulated process: a real
// exit inside a simulated execution would end the execution's host process instead of the
// simulated one. Nothing else is changed.
use std::{env, fs, path::Path};

fn main() {
    let src = "/repo/src/bin/roughenough-server.rs";
    println!("cargo:rerun-if-changed={}", src);
    let text = fs::read_to_string(src).expect("read server binary source");
    let out: String = text
        .lines()
        .map(|l| if l.trim_start().starts_with("//!") { l.replacen("//!", "// ", 1) } else { l.to_string() })
        .map(|l| if l.contains("cfg(") { l } else { l.replace("::std::process::exit", "verif_std::process::exit").replace("std::process::exit", "verif_std::process::exit").replace("use std::process;", "use verif_std::process;") })
        .collect::<Vec<_>>()
        .join("\n");
    println!("cargo:rustc-check-cfg=cfg(verif_has_keep_running)");
    if text.contains("static KEEP_RUNNING") {
        println!("cargo:rustc-cfg=verif_has_keep_running");
    }
    let dst = Path::new(&env::var("OUT_DIR").unwrap()).join("server_bin.rs");
    fs::write(dst, out).unwrap();
}
