//! The repository's `roughenough-server` binary compiled as a library: `main()` is the real code.
#![allow(dead_code)]

include!(concat!(env!("OUT_DIR"), "/server_bin.rs"));

/// Run the real `main()` as the main thread of a simulated process.
pub fn verif_main() {
    main()
}

/// A fresh process image: the binary's `KEEP_RUNNING` static is true again.
pub fn verif_reset() {
    KEEP_RUNNING.store(true, Ordering::SeqCst);
}

pub fn verif_keep_running() -> bool {
    KEEP_RUNNING.load(Ordering::SeqCst)
}
