//! The repository's `roughenough-server` binary compiled as a library: `main()` is the real code.
#![allow(dead_code)]

include!(concat!(env!("OUT_DIR"), "/server_bin.rs"));

/// Run the real `main()` as the main thread of a simulated process. Whatever `main` returns
/// (`()`, `ExitCode`, `Result<..>`) becomes the exit status the way the Rust runtime would make it.
pub fn verif_main() {
    let code = verif_exit_status(main());
    if code != 0 {
        verif_std::process::exit(code);
    }
}

fn verif_exit_status<T: std::process::Termination>(t: T) -> i32 {
    let c = t.report();
    if c == std::process::ExitCode::SUCCESS {
        return 0;
    }
    // ExitCode has no accessor: its Debug form ends in the number
    let d = format!("{:?}", c);
    let digits: String = d.chars().filter(|ch| ch.is_ascii_digit()).collect();
    digits.parse().unwrap_or(1)
}

/// The binary's shutdown flag, whatever it is wrapped in.
trait VerifFlag {
    fn v_set(&self, v: bool);
    fn v_get(&self) -> bool;
}

impl VerifFlag for std::sync::atomic::AtomicBool {
    fn v_set(&self, v: bool) {
        self.store(v, std::sync::atomic::Ordering::SeqCst)
    }
    fn v_get(&self) -> bool {
        self.load(std::sync::atomic::Ordering::SeqCst)
    }
}

impl<F: FnOnce() -> std::sync::atomic::AtomicBool> VerifFlag for once_cell::sync::Lazy<std::sync::atomic::AtomicBool, F> {
    fn v_set(&self, v: bool) {
        (**self).v_set(v)
    }
    fn v_get(&self) -> bool {
        (**self).v_get()
    }
}

impl VerifFlag for once_cell::sync::OnceCell<std::sync::atomic::AtomicBool> {
    fn v_set(&self, v: bool) {
        if let Some(b) = self.get() {
            b.v_set(v)
        }
    }
    fn v_get(&self) -> bool {
        self.get().map(|b| b.v_get()).unwrap_or(true)
    }
}

impl<F: FnOnce() -> std::sync::atomic::AtomicBool> VerifFlag for std::sync::LazyLock<std::sync::atomic::AtomicBool, F> {
    fn v_set(&self, v: bool) {
        (**self).v_set(v)
    }
    fn v_get(&self) -> bool {
        (**self).v_get()
    }
}

impl VerifFlag for std::sync::OnceLock<std::sync::atomic::AtomicBool> {
    fn v_set(&self, v: bool) {
        if let Some(b) = self.get() {
            b.v_set(v)
        }
    }
    fn v_get(&self) -> bool {
        self.get().map(|b| b.v_get()).unwrap_or(true)
    }
}

/// A fresh process image: the binary's `KEEP_RUNNING` static is true again (statics outlive a
/// simulated restart because both incarnations live in one OS process).
#[cfg(verif_has_keep_running)]
pub fn verif_reset() {
    VerifFlag::v_set(&KEEP_RUNNING, true);
}

#[cfg(verif_has_keep_running)]
pub fn verif_keep_running() -> bool {
    VerifFlag::v_get(&KEEP_RUNNING)
}

/// (the binary has no static of that name any more: nothing to reset)
#[cfg(not(verif_has_keep_running))]
pub fn verif_reset() {}

#[cfg(not(verif_has_keep_running))]
pub fn verif_keep_running() -> bool {
    true
}
