#!/bin/bash
# Developer sweep: run every claimed check's quick (or given) tier under many VERIF_SEED values
# and report any alarm. usage: tools/sweep.sh <first-seed> <last-seed> [tier] [props...]
HERE="$(cd "$(dirname "$0")/.." && pwd)"
cd "$HERE"
A="${1:-1}"; B="${2:-10}"; TIER="${3:-quick}"; shift 3 2>/dev/null
PROPS="${*:-C01 C02 C03 C07 C08 C09 C10 C11 C12 C14 C15 C16 C17 C18 C19 C20}"
bad=0
for seed in $(seq "$A" "$B"); do
  for p in $PROPS; do
    out="$(VERIF_SEED=$seed ./check "$p" "$TIER" 2>&1)"; code=$?
    if [ $code -ne 0 ]; then
      bad=$((bad+1)); echo "ALARM seed=$seed $p exit=$code"; echo "$out" | grep -E "^  [A-Z][0-9]+\||VIOLATION|HARNESS" | head -8
      mkdir -p sweep-replays; for f in $(echo "$out" | grep -o 'replay=[^ ]*' | cut -d= -f2); do cp "$f" sweep-replays/ 2>/dev/null; done
    fi
  done
  echo "seed $seed done (alarms so far: $bad)"
done
echo "sweep finished: $bad alarm(s)"
