#!/bin/bash
# False-alarm self-test: every patch in quiet/ changes roughenough without breaking any property
# (renamed threads, reworded banner, other poll timeout, other loop shape, ...). Each is applied to
# a scratch worktree of /repo; every check must stay at exit 0. Usage: tools/quiettest_iso.sh [pattern] [tier]
# Scratch lives under /tmp/verif-quiet and is removed at the end unless KEEP=1.
set -u
HERE="$(cd "$(dirname "$0")/.." && pwd)"
PAT="${1:-}"; TIER="${2:-quick}"
ISO="${ISO:-/tmp/verif-quiet}"
mkdir -p "$ISO"
if [ ! -d "$ISO/repo" ]; then git -C /repo worktree add --detach "$ISO/repo" HEAD -q || exit 2; fi
git -C "$ISO/repo" checkout -q --detach "$(git -C /repo rev-parse HEAD)" 2>/dev/null; git -C "$ISO/repo" checkout -q -- . ; git -C "$ISO/repo" clean -fdq
mkdir -p "$ISO/verif"
rsync -a --delete --exclude target "$HERE/sim/" "$ISO/verif/sim/"
cp "$HERE/known_findings.json" "$ISO/verif/"
sed -i "s#/repo/#$ISO/repo/#g" "$ISO/verif/sim/rt/Cargo.toml" "$ISO/verif/sim/wrap-server/build.rs" "$ISO/verif/sim/wrap-client/build.rs"
export CARGO_NET_OFFLINE=true TZ=UTC VERIF_DIR="$ISO/verif"
PROPS="${ONLY:-}"; [ -n "$PROPS" ] || PROPS="$(python3 -c "import json;print(' '.join(c['property_id'] for c in json.load(open('$HERE/MANIFEST.json'))['checks']))" 2>/dev/null)"
[ -n "$PROPS" ] || PROPS="C01 C02 C03 C07 C08 C09 C10 C11 C12 C14 C15 C16 C17 C18 C19 C20"
bad=0; good=0
for patch in "$HERE"/quiet/*.patch; do
    name="$(basename "$patch" .patch)"
    if [ -n "$PAT" ] && [[ "$name" != *$PAT* ]]; then continue; fi
    git -C "$ISO/repo" apply "$patch" || { echo "$name: patch does not apply"; bad=$((bad+1)); continue; }
    (cd "$ISO/verif/sim" && cargo build --release --offline -q 2> "$ISO/build.log") || { echo "ALARM $name: build failed"; grep -E '^error' -A6 "$ISO/build.log" | head; git -C "$ISO/repo" checkout -q -- . ; git -C "$ISO/repo" clean -fdq; bad=$((bad+1)); continue; }
    alarms=""
    for p in $PROPS; do
        out="$("$ISO/verif/sim/target/release/simcheck" check "$p" "$TIER" 2>&1)"; code=$?
        if [ $code -ne 0 ]; then alarms="$alarms $p(exit=$code: $(echo "$out" | grep -E '^  [A-Z][0-9]+\|' | head -1 | cut -c1-140))"; fi
    done
    git -C "$ISO/repo" checkout -q -- . ; git -C "$ISO/repo" clean -fdq
    if [ -z "$alarms" ]; then echo "quiet $name"; good=$((good+1)); else echo "ALARM $name:$alarms"; bad=$((bad+1)); fi
done
echo "quiet test (isolated): $good quiet, $bad alarmed"
if [ "${KEEP:-0}" != "1" ]; then git -C /repo worktree remove --force "$ISO/repo"; rm -rf "$ISO"; fi
[ $bad -eq 0 ]
