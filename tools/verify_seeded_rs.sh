#!/bin/bash
# verify a sub-agent's seeded change whose demonstration is a tests/*.rs file
# usage: verify_seeded_rs.sh <worktree> <outdir> <demo.rs>
WT="$1"; OUT="$2"; DEMO="$3"
cd "$WT" || exit 2
git checkout -q -- . ; rm -rf tests
git apply "$OUT/patch.diff" || { echo "patch does not apply"; exit 2; }
echo "== suite with change:"; cargo test --workspace --offline 2>&1 | grep -E "^test result" | head -1
mkdir -p tests; cp "$OUT/$DEMO" tests/seeded_demo.rs
echo "== demo with change:"; cargo test --offline --test seeded_demo 2>&1 | grep -E "^test result|panicked" | head -4
git checkout -q -- src
echo "== demo without change:"; cargo test --offline --test seeded_demo 2>&1 | grep -E "^test result|panicked" | head -4
rm -rf tests; git status --short | head -3
