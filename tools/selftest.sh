#!/bin/bash
# Sensitivity self-test: apply each deliberate property-breaking patch to /repo, run the tagged
# property's quick check, expect exit 1 (or exit 0 for patches tagged expect=quiet), revert.
# Developer command, not a registered check. Usage: tools/selftest.sh [name-pattern] [tier]
set -u
HERE="$(cd "$(dirname "$0")/.." && pwd)"
PAT="${1:-}"
TIER="${2:-quick}"
cd "$HERE"
if [ -n "$(git -C /repo status --porcelain --untracked-files=no)" ]; then echo "/repo is not clean"; exit 2; fi
pass=0; fail=0
for meta in mutants/*.meta seeded/*/meta.env; do
    [ -e "$meta" ] || continue
    case "$meta" in
        mutants/*) name="$(basename "$meta" .meta)"; patch="mutants/$name.patch";;
        *) name="seeded-$(basename "$(dirname "$meta")")"; patch="$(dirname "$meta")/patch.diff";;
    esac
    if [ -n "$PAT" ] && [[ "$name" != *$PAT* ]]; then continue; fi
    prop="$(grep '^property=' "$meta" | cut -d= -f2)"
    expect="$(grep '^expect=' "$meta" | cut -d= -f2)"
    git -C /repo apply "$HERE/$patch" || { echo "$name: patch does not apply"; fail=$((fail+1)); continue; }
    out="$(./check "$prop" "$TIER" 2>&1)"; code=$?
    git -C /repo checkout -- .
    sig="$(echo "$out" | grep -E '^  [A-Z][0-9]+\|' | head -2 | cut -c1-150 | tr '\n' ';')"
    if { [ "$expect" = "quiet" ] && [ $code -eq 0 ]; } || { [ "$expect" != "quiet" ] && [ $code -eq 1 ]; }; then
        echo "ok    $name [$prop] exit=$code $sig"; pass=$((pass+1))
    else
        echo "MISS  $name [$prop] exit=$code expect=$expect $sig"; echo "$out" | tail -3; fail=$((fail+1))
    fi
done
echo "selftest: $pass ok, $fail not as expected"
# leave the simulator built against the clean tree
(cd "$HERE/sim" && cargo build --release --offline -q 2>/dev/null)
[ $fail -eq 0 ]
