#!/bin/bash
# Developer run: every claimed check's thorough tier, one after the other (riskiest first), with
# its wall time and exit status. usage: tools/thorough_all.sh [props...]
HERE="$(cd "$(dirname "$0")/.." && pwd)"
cd "$HERE"
PROPS="${*:-C19 C17 C15 C03 C01 C10 C20 C16 C18 C08 C09 C11 C02 C07 C12 C14}"
for p in $PROPS; do
  s=$(date +%s)
  ./check "$p" thorough 2>&1 | grep -E "Thorough:|VIOLATION|HARNESS|^  C[0-9]+\|" | head -8
  echo "$p thorough $(( $(date +%s) - s ))s exit=${PIPESTATUS[0]}"
done
