#!/usr/bin/env python3
"""Regenerates /verif/MANIFEST.json from the table below (single source of truth)."""
import json, os, subprocess

HERE = os.path.dirname(os.path.dirname(os.path.abspath(__file__)))

TB = 'Trusted: the reference implementation (sha2 + ring Ed25519, /verif/sim/refimpl), the kernel/mio stand-ins (Linux edge-trigger model, measured against the real kernel during design), the service-time model, corosensei. '

def W(text, ref, technique, level="exploration", note=None):
    return dict(level=level, text=text, ref=ref, technique=technique, note=note or (TB + "Real vs stub components are listed in every evidence file."))

CLAIMED = {
    "C01": W("Seeded deterministic simulation (C mode): the repository's own client main() runs as a simulated process (one or two incarnations, -n 1..8, both protocols, key as hex/base64) against a byzantine reference responder that applies 1-3 seeded forgery operators per response (the property's forgery space: bit flips/rewrites of each field, re-signing by other keys, cross-protocol contexts, splices, replays within and across runs, truncation, mutation, midpoint outside a genuine narrow window, wrong leaf/index/path length, drop, duplicate; one response in four in the classic layout without a top-level NONC). Oracle (soundness direction only): the client printing a time for response i implies the lenient reference verifier accepts response i for request i under the pinned key; a rejected response must end the process non-zero; nonces come from the entropy seam and never repeat. Sampling of the forgery space, not enumeration.", "5 (C01)", "deterministic simulation with fault injection: byzantine-peer fault injection against the real client main(), reference-verifier oracle"),
    "C02": W("Seeded deterministic simulation (W mode): 1-4 real Server workers on one simulated REUSEPORT port are fed seeded bursts of valid classic/IETF requests; every datagram a server socket emits is verified by the independent reference verifier for the request that elicited it; batch shape (distinct INDX, depth>=1 for n>=2) is checked per batch; a network/schedule fault profile runs separately; a grease profile checks the failing share for p in {1,10,50} (quick) / 1..=50 (thorough) within 6 sigma over >= 2000 replies. Sampling, not proof.", "5 (C02)", "deterministic simulation with fault injection: seeded search over batch compositions, arrival interleavings and worker schedules; reference-verifier oracle at the server-socket boundary"),
    "C03": W("Seeded deterministic simulation (C mode): the real client main() against (a) an honest reference responder signing chosen midpoints (epoch..year 9999) with the request at a chosen index 0..63 of a batch of depth 0..6, and (b) 1-4 real Server workers under a swept simulated wall clock with up to 64 competing requests so that batches form; -z / -f (seven format strings) / neither, in any combination, on a machine in one of seven fixed-offset time zones; classic responses with and without the top-level NONC. Oracle: exit status 0, exactly -n time lines, each equal to an independent civil-time formatter applied to the MIDP of the response actually delivered (in UTC or at the machine's offset), verified flag iff a key was given.", "5 (C03)", "deterministic simulation: real client and real server in one simulated world, honest reference responder, simulated clock sweep"),
    "C07": W("Seeded deterministic simulation (W mode): storms of 40-300 datagrams per run (every length class 0..65507, truncated/extended/field-mutated requests, nonces of every aligned length, frame-length values, VER/SRV variants) plus full 64-request batches of maximum path depth; oracle at the server-socket boundary: every send is matched to the datagram that elicited it, which must be 1024..1500 bytes and satisfy the reference request predicate, and the response must not be longer than it. Absence of replies is decided at the end of the run after later sentinels were answered.", "5 (C07)", "deterministic simulation with fault injection: seeded datagram storms against real workers; request/response matching over the recorded history"),
    "C08": W("Seeded deterministic simulation (W mode): datagram storms x log level Off..Trace (set through log::set_max_level so that argument expressions of enabled records execute) x fault_percentage x batch_size x per-client/aggregated stats, with injected send_to/recv_from errors, receive-queue overflow, spurious poll returns, phantom datagrams and stalled tasks in the fault profile; oracle: no task of the server process panics, the run never hits the step cap, every valid request a worker has read gets its one send attempt (also behind a failed send in the same batch), every one of 8 valid sentinels sent after faults stop and of a final burst (awkward datagrams with one valid request behind them, nothing afterwards) is answered; one run in four boots the whole server under storms with accept/TCP-write/file errors, disk stalls and wall-clock steps.", "5 (C08)", "deterministic simulation with fault injection: storms, syscall faults and log-level dimension; panic and bounded-liveness oracle"),
    "C09": W("Seeded deterministic simulation (W and F modes): 1-16 real workers fed bursts below/at/above batch_size from 1-96 sockets with duplicate nonces across sockets and invalid datagrams interleaved; history check at quiescence: every standard valid request received has exactly one send (to its source, verifying for that very request, in its own protocol), invalid datagrams none, no batch mixes protocols, nothing is left unread in a worker socket 1 simulated second after the last arrival. A long-run profile streams 700-70000 distinct requests in seeded groups through 1-2 workers (more than 65536 requests / batches per worker) for count-dependent behaviour; a grease profile keeps the exactly-once oracle under deliberate errors.", "5 (C09)", "deterministic simulation with fault injection: exactly-once / right-recipient check over the recorded history at the server-socket boundary"),
    "C10": W("Seeded deterministic simulation (F mode): the real main() is booted from a configuration with a per-run seed (random and degenerate patterns), serves mixed traffic with correct/wrong/absent SRV under arbitrary REUSEPORT distribution, and is crashed, signalled or restarted 0-4 times at seeded instants and rebooted from the same configuration. Oracle in every incarnation: announced key = RFC 8032 key of the seed (ring), SRV semantics per sha2, every distinct CERT verifies under that key with its own protocol's delegation context and not with the other's, MINT <= MIDP <= MAXT.", "5 (C10)", "deterministic simulation with fault injection: crash/restart and signal injection on the real server process; identity oracle from an independent Ed25519/SHA-512"),
    "C11": W("Seeded deterministic simulation (W mode): the simulated wall clock is the fault space (start anywhere epoch..year 9999 on sub-second edges, stepped, set or frozen between and during batches); every clock read is logged; per batch MIDP must be the floor of a reading that worker took for that batch in the protocol's unit, RADI five seconds, and a reading must lie within MIDP +- RADI.", "5 (C11)", "deterministic simulation with clock fault injection: simulated wall clock sweeps, steps and freezes; per-batch midpoint oracle"),
    "C12": W("The request matrix (every VER list of length 0..=6 over 5 version numbers x SRV absent/correct/other; SRV bit flips, lengths, another server; VER absent: 58856 variants) is enumerated completely once per quick run, 60 variants per simulated execution, each embedded among seeded unrelated traffic and batches on real workers; reply <=> reference predicate, absence decided at quiescence, replies carry draft-13 and the supported list inside the signed part. The matrix is exhaustive; the traffic contexts are sampled.", "5 (C12)", "deterministic simulation: exhaustive request matrix embedded in seeded traffic; quiescence-decided absence of replies"),
    "C14": W("Fault enumeration on the two existing seams (KmsProvider and the stored blob), no scheduler: per sampled (plaintext length, provider, wrapped length) every single-bit flip, single-byte change, truncation length, extension and provider fault on either call is evaluated against the real encrypt_seed/decrypt_seed; DEK and nonce are drawn through the simulated entropy seam so the leak check knows them.", "5 (C14)", "fault injection on the KmsProvider seam and the stored blob: exhaustive fault-position enumeration per sampled configuration", level="fault_enumeration"),
    "C15": W("Seeded deterministic simulation (F mode): one boot of the real main() per evaluation over the documented option space (num_workers 1..=16 explicit or defaulted, health_check_port, batch_size, fault_percentage, status_interval, client_stats, file/env, /repo/example.cfg read at run time), then round-robin traffic and TCP health connections at seeded instants. Oracle: spawned and live workers = configured, no panic, no exit, every worker answers (distinct online keys), every health connection gets the fixed response and EOF within 1 simulated second (also those queued behind a connection its client has reset); start-ups with a port held by another program must end the process rather than leave it running without workers.", "5 (C15)", "deterministic simulation: configuration-space exploration by booting the real binary in a simulated machine; thread/mutex/bind cascade reproduced by the simulated kernel"),
    "C16": W("The grid of documented keys x boundary values x {file, environment} is enumerated completely; each point boots the real main() in the simulator and reads the effective values off the simulated machine (addresses bound, threads spawned, TCP listeners, timer periods, largest batch of a 200-request burst, failing-reply share, announced key) cross-checked with the start-up log; out-of-range, missing, unknown => the process must end non-zero before any socket is bound.", "5 (C16)", "deterministic simulation: exhaustive configuration grid, effective settings observed at the simulated kernel"),
    "C17": W("Seeded deterministic simulation (W and F modes): the kernel tap (what each worker received and answered per source address, bytes, failed sends, accepted health connections) is compared with recorder state + pushed snapshots (W, via hook H7 and the real stats queue) and with the real Reporter's persisted CSV files (F). Counters + overflow count (hook H9) must equal the events when no snapshot was published and never exceed them otherwise; a cleared recorder must report zero overflows; the reporter must never create a statistics file path twice; runs with dozens of reports; a directly driven real Reporter (harness in the role of the workers) merging snapshots with magnitudes beyond 32 bits, every persisted per-address sum equal to what was handed over. Claimed part: system-level conservation; enumeration of recorder call sequences on bare objects is not claimed.", "5 (C17)", "deterministic simulation with fault injection: conservation between kernel tap, worker recorders, stats queue and reporter output"),
    "C18": W("Seeded deterministic simulation (F mode): real main() with num_workers {1,2,4,8,16} on one REUSEPORT group, 1-64 closed-loop clients, seeded schedule strategies (uniform/sticky/starve-one), kernel distribution (flow hash/arbitrary), service-time factor, delay/duplication/stall faults and send errors during start-up and early load, clients sending boundary variants of valid requests (1500/1496/1028 bytes, SRV present, several offered versions); oracle: exactly-once + validity under the single long-term key at both the server boundary and each client, no worker dies, every request sent after faults stop is answered within 1 simulated second.", "5 (C18)", "deterministic simulation with fault injection: seeded search over thread schedules and kernel datagram distribution"),
    "C19": W("Seeded deterministic simulation (F mode): for baselines (workers {1,4,16} x client_stats off/on x load idle/closed-loop/flood) the scheduling points after all workers serve are counted and SIGINT/SIGTERM is delivered at point k (40 stratified per baseline quick, 600 or all thorough); oracle: exit status 0 within 3 simulated seconds of the handler, no panic output, every response emitted before exit verifies. Loads: idle, long idle (20-60 simulated s), closed-loop, open-loop flood of a slow worker (valid / unanswerable / mixed / garbage / empty / short datagrams), health checks while accept fails with EMFILE, recv_from failing persistently, statistics file creation failing, a slow disk under the reporter (rounds longer than its sleep; disk time added to the deadline), floods alternating both protocols with runt datagrams; a handled signal interrupts blocked polls (EINTR) with a seeded choice.", "5 (C19)", "deterministic simulation with fault injection: signal delivery enumerated over the scheduling points of baseline executions"),
    "C20": W("Seeded deterministic simulation (W and F modes) with per-run random seeds, log levels Off..Trace, valid/invalid/greased traffic, file and environment sources, start-ups that fail (validation, ports held by another program, numeric-looking or malformed seeds, key-management providers named with a plaintext seed), socket/TCP/file errors while traffic flows, restart + signal: every datagram, log record, stdout/stderr byte, TCP byte and written file is scanned for the seed, the clamped scalar and the unclamped SHA-512 half in raw/hex/base64 forms. The same monitor is on inside every other W/F check.", "5 (C20)", "deterministic simulation: always-on secret-scan monitor over everything the simulated server emits"),
}

NOT_APPLICABLE = {
    "C04": "pure sequential in-memory data structure (MerkleTree call sequences on one owner): no schedule, clock, I/O or fault for a simulator to control; sizes 65..=255 are unreachable through the server. By-product coverage only (C02/C09/C01).",
    "C05": "pure function of a byte string / field list (codec round-trip and agreement with a reference decoder): input enumeration, not simulation.",
    "C06": "pure function of a byte string (decode/print never panics): input enumeration; the server-reachable half is exercised inside C08.",
    "C13": "sequential object with a private buffer (incremental signer/verifier): no I/O, sharing or time; by-product coverage through C10/C02.",
}

PENDING_REASON = "not claimed yet"

def main():
    props = [json.loads(l) for l in open(os.path.join(HERE, "properties.jsonl"))]
    checks = []
    na = []
    for p in props:
        pid = p["id"]
        if pid in CLAIMED:
            c = CLAIMED[pid]
            checks.append({
                "property_id": pid,
                "quick_cmd": f"./check {pid} quick",
                "thorough_cmd": f"./check {pid} thorough",
                "evidence_file": f"/verif/evidence/{pid}.json",
                "replay_cmd_template": "./sim/target/release/simcheck replay {path}",
                "engine": "dsim",
                "level_claimed": {"category": c["level"], "text": c["text"], "design_ref": c["ref"]},
                "level_note": c["note"],
                "technique": c["technique"],
            })
        elif pid in NOT_APPLICABLE:
            na.append({"property_id": pid, "reason": NOT_APPLICABLE[pid]})
        else:
            na.append({"property_id": pid, "reason": PENDING_REASON})
    hooks = subprocess.run(["git", "-C", "/repo", "log", "--format=%h %s", "--grep=^verif hook"], capture_output=True, text=True).stdout.strip().split("\n")
    hooks = [h.split()[0] for h in hooks if h][::-1]
    m = {
        "version": 1,
        "setup_cmd": "cd /verif/sim && CARGO_NET_OFFLINE=true cargo build --release --offline",
        "hooks": {
            "guard": "--cfg roughenough_verif",
            "enable": "RUSTFLAGS in /verif/sim/.cargo/config.toml: --cfg roughenough_verif; /repo/src is compiled through the shadow manifest /verif/sim/rt/Cargo.toml (lib path /repo/src/lib.rs) and the wrapper crates /verif/sim/wrap-{server,client} (build.rs copies of the binaries)",
            "baseline_off_cmd": "cd /repo && cargo test --workspace --no-fail-fast --offline",
            "source_commits": hooks,
            "add_only": True,
        },
        "engines": [{
            "name": "dsim",
            "path": "/verif/sim",
            "serves_properties": sorted(CLAIMED),
            "kind_free_text": "purpose-built deterministic simulator: corosensei coroutines on one OS thread, discrete-event clock, simulated kernel (UDP/REUSEPORT/epoll edges/TCP accept/timers/processes/signals), choice tape with plan+tape replay files and structured shrinking; real roughenough library and both binaries' main() run inside it",
        }],
        "checks": checks,
        "not_applicable": na,
        "notes": "Technique family: deterministic simulation with fault injection. See DESIGN.md. Exit codes of every check: 0 held, 1 violation (VIOLATION line with replay file), 2 harness error. Known findings: /verif/known_findings.json.",
    }
    json.dump(m, open(os.path.join(HERE, "MANIFEST.json"), "w"), indent=1)
    print("checks:", [c["property_id"] for c in checks], "n/a:", [n["property_id"] for n in na])

if __name__ == "__main__":
    main()
