#!/usr/bin/env python3
"""Regenerates /verif/MANIFEST.json from the table below (single source of truth)."""
import json, os, subprocess

HERE = os.path.dirname(os.path.dirname(os.path.abspath(__file__)))

CLAIMED = {
    "C02": dict(
        level="exploration",
        text="Seeded deterministic simulation (W mode): 1-4 real Server workers on one simulated REUSEPORT port are fed seeded bursts of valid classic/IETF requests; every datagram a server socket emits is verified by an independent reference verifier (sha2 + ring Ed25519) for the request that elicited it; batch shape (distinct INDX, depth>=1 for n>=2) is checked per batch; a separate grease profile checks the failing share for p in {1,10,50} (quick) / 1..=50 (thorough) within 6 sigma. Sampling, not proof: batch compositions, sizes and consecutive-batch histories are searched by seed, not enumerated.",
        ref="5 (C02)",
        note="Trusted: the reference implementation, the kernel/mio stand-ins (Linux edge-trigger model), the service-time model, corosensei. Real: the whole roughenough library incl. Server::process_events.",
        technique="deterministic simulation with fault injection: seeded search over batch compositions, arrival interleavings and worker schedules; reference-verifier oracle at the server-socket boundary",
    ),
}

NOT_APPLICABLE = {
    "C04": "pure sequential in-memory data structure (MerkleTree call sequences on one owner): no schedule, clock, I/O or fault for a simulator to control; sizes 65..=255 are unreachable through the server. By-product coverage only (C02/C09/C01).",
    "C05": "pure function of a byte string / field list (codec round-trip and agreement with a reference decoder): input enumeration, not simulation.",
    "C06": "pure function of a byte string (decode/print never panics): input enumeration; the server-reachable half is exercised inside C08.",
    "C13": "sequential object with a private buffer (incremental signer/verifier): no I/O, sharing or time; by-product coverage through C10/C02.",
}

PENDING_REASON = "not claimed yet: the simulation check for this property is designed (DESIGN.md section 5) but not built at this commit"

def main():
    props = [json.loads(l) for l in open(os.path.join(HERE, "properties.jsonl"))]
    checks = []
    na = []
    for p in props:
        pid = p["id"]
        if pid in CLAIMED:
            c = CLAIMED[pid]
            checks.append({
                "property_id": pid,
                "quick_cmd": f"./check {pid} quick",
                "thorough_cmd": f"./check {pid} thorough",
                "evidence_file": f"/verif/evidence/{pid}.json",
                "replay_cmd_template": "./sim/target/release/simcheck replay {path}",
                "engine": "dsim",
                "level_claimed": {"category": c["level"], "text": c["text"], "design_ref": c["ref"]},
                "level_note": c["note"],
                "technique": c["technique"],
            })
        elif pid in NOT_APPLICABLE:
            na.append({"property_id": pid, "reason": NOT_APPLICABLE[pid]})
        else:
            na.append({"property_id": pid, "reason": PENDING_REASON})
    hooks = subprocess.run(["git", "-C", "/repo", "log", "--format=%h %s", "--grep=^verif hook"], capture_output=True, text=True).stdout.strip().split("\n")
    hooks = [h.split()[0] for h in hooks if h][::-1]
    m = {
        "version": 1,
        "setup_cmd": "cd /verif/sim && CARGO_NET_OFFLINE=true cargo build --release --offline",
        "hooks": {
            "guard": "--cfg roughenough_verif",
            "enable": "RUSTFLAGS in /verif/sim/.cargo/config.toml: --cfg roughenough_verif; /repo/src is compiled through the shadow manifest /verif/sim/rt/Cargo.toml (lib path /repo/src/lib.rs) and the wrapper crates /verif/sim/wrap-{server,client} (build.rs copies of the binaries)",
            "baseline_off_cmd": "cd /repo && cargo test --workspace --no-fail-fast --offline",
            "source_commits": hooks,
            "add_only": True,
        },
        "engines": [{
            "name": "dsim",
            "path": "/verif/sim",
            "serves_properties": sorted(CLAIMED),
            "kind_free_text": "purpose-built deterministic simulator: corosensei coroutines on one OS thread, discrete-event clock, simulated kernel (UDP/REUSEPORT/epoll edges/TCP accept/timers/processes/signals), choice tape with plan+tape replay files and structured shrinking; real roughenough library and both binaries' main() run inside it",
        }],
        "checks": checks,
        "not_applicable": na,
        "notes": "Technique family: deterministic simulation with fault injection. See DESIGN.md. Exit codes of every check: 0 held, 1 violation (VIOLATION line with replay file), 2 harness error. Known findings: /verif/known_findings.json.",
    }
    json.dump(m, open(os.path.join(HERE, "MANIFEST.json"), "w"), indent=1)
    print("checks:", [c["property_id"] for c in checks], "n/a:", [n["property_id"] for n in na])

if __name__ == "__main__":
    main()
