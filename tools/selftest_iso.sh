#!/bin/bash
# Sensitivity self-test in isolation: a scratch worktree of /repo and a scratch copy of the
# simulator workspace re-pointed at it, so that neither /repo nor /verif/evidence is touched
# (usable while other jobs build from /repo). Usage: tools/selftest_iso.sh [name-pattern] [tier]
# Scratch lives under /tmp/verif-iso and is removed at the end unless KEEP=1.
set -u
HERE="$(cd "$(dirname "$0")/.." && pwd)"
PAT="${1:-}"; TIER="${2:-quick}"
ISO="${ISO:-/tmp/verif-iso}"
mkdir -p "$ISO"
if [ ! -d "$ISO/repo" ]; then git -C /repo worktree add --detach "$ISO/repo" HEAD -q || exit 2; fi
git -C "$ISO/repo" checkout -q --detach "$(git -C /repo rev-parse HEAD)" 2>/dev/null; git -C "$ISO/repo" checkout -q -- . ; git -C "$ISO/repo" clean -fdq
mkdir -p "$ISO/verif"
rsync -a --delete --exclude target "$HERE/sim/" "$ISO/verif/sim/"
cp "$HERE/known_findings.json" "$ISO/verif/"
sed -i "s#/repo/#$ISO/repo/#g" "$ISO/verif/sim/rt/Cargo.toml" "$ISO/verif/sim/wrap-server/build.rs" "$ISO/verif/sim/wrap-client/build.rs"
export CARGO_NET_OFFLINE=true TZ=UTC VERIF_DIR="$ISO/verif"
pass=0; fail=0
for meta in "$HERE"/mutants/*.meta "$HERE"/seeded/*/meta.env; do
    [ -e "$meta" ] || continue
    case "$meta" in
        */mutants/*) name="$(basename "$meta" .meta)"; patch="$HERE/mutants/$name.patch";;
        *) name="seeded-$(basename "$(dirname "$meta")")"; patch="$(dirname "$meta")/patch.diff";;
    esac
    if [ -n "$PAT" ] && [[ "$name" != *$PAT* ]]; then continue; fi
    prop="$(grep '^property=' "$meta" | cut -d= -f2)"
    expect="$(grep '^expect=' "$meta" | cut -d= -f2)"
    git -C "$ISO/repo" apply "$patch" || { echo "$name: patch does not apply"; fail=$((fail+1)); continue; }
    (cd "$ISO/verif/sim" && cargo build --release --offline -q 2> "$ISO/build.log") || { echo "MISS  $name: build failed"; grep -E '^error' -A6 "$ISO/build.log" | head; git -C "$ISO/repo" checkout -q -- . ; git -C "$ISO/repo" clean -fdq; fail=$((fail+1)); continue; }
    out="$("$ISO/verif/sim/target/release/simcheck" check "$prop" "$TIER" 2>&1)"; code=$?
    git -C "$ISO/repo" checkout -q -- . ; git -C "$ISO/repo" clean -fdq
    sig="$(echo "$out" | grep -E '^  [A-Z][0-9]+\|' | head -2 | cut -c1-150 | tr '\n' ';')"
    if { [ "$expect" = "quiet" ] && [ $code -eq 0 ]; } || { [ "$expect" != "quiet" ] && [ $code -eq 1 ]; }; then
        echo "ok    $name [$prop] exit=$code $sig"; pass=$((pass+1))
    else
        echo "MISS  $name [$prop] exit=$code expect=$expect $sig"; echo "$out" | tail -3; fail=$((fail+1))
    fi
done
echo "selftest (isolated): $pass ok, $fail not as expected"
if [ "${KEEP:-0}" != "1" ]; then git -C /repo worktree remove --force "$ISO/repo"; rm -rf "$ISO"; fi
[ $fail -eq 0 ]
