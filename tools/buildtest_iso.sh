#!/bin/bash
# Build-only test: does the simulation build survive each patch in quiet/ (stand-in API coverage)?
# Usage: tools/buildtest_iso.sh [pattern]. Scratch under ${ISO:-/tmp/verif-build}, kept if KEEP=1.
set -u
HERE="$(cd "$(dirname "$0")/.." && pwd)"
PAT="${1:-}"
ISO="${ISO:-/tmp/verif-build}"
mkdir -p "$ISO"
if [ ! -d "$ISO/repo" ]; then git -C /repo worktree add --detach "$ISO/repo" HEAD -q || exit 2; fi
git -C "$ISO/repo" checkout -q --detach "$(git -C /repo rev-parse HEAD)" 2>/dev/null; git -C "$ISO/repo" checkout -q -- . ; git -C "$ISO/repo" clean -fdq
mkdir -p "$ISO/verif"
rsync -a --delete --exclude target "$HERE/sim/" "$ISO/verif/sim/"
sed -i "s#/repo/#$ISO/repo/#g" "$ISO/verif/sim/rt/Cargo.toml" "$ISO/verif/sim/wrap-server/build.rs" "$ISO/verif/sim/wrap-client/build.rs"
export CARGO_NET_OFFLINE=true
bad=0
for patch in "$HERE"/quiet/*.patch; do
    name="$(basename "$patch" .patch)"
    if [ -n "$PAT" ] && [[ "$name" != *$PAT* ]]; then continue; fi
    git -C "$ISO/repo" apply "$patch" || { echo "NOAPPLY $name"; bad=$((bad+1)); continue; }
    if (cd "$ISO/verif/sim" && cargo build --release --offline -q 2> "$ISO/build.log"); then echo "builds  $name"; else echo "BROKEN  $name"; grep -E '^error' -A7 "$ISO/build.log" | head -40; bad=$((bad+1)); fi
    git -C "$ISO/repo" checkout -q -- . ; git -C "$ISO/repo" clean -fdq
done
if [ "${KEEP:-0}" != "1" ]; then git -C /repo worktree remove --force "$ISO/repo"; rm -rf "$ISO"; fi
[ $bad -eq 0 ]
